// Package apidesc dumps a protobuf file descriptor (as linked into the generated Go package) in the
// neutral JSON form that spec/ApiCompat.tla consumes.
package apidesc

import (
	"encoding/json"
	"io"

	"google.golang.org/genproto/googleapis/api/annotations"
	"google.golang.org/protobuf/proto"
	"google.golang.org/protobuf/reflect/protoreflect"
)

type Field struct {
	Name     string `json:"name"`
	Number   int    `json:"number"`
	Kind     string `json:"kind"`     // scalar kind, "message" or "enum"
	TypeName string `json:"typename"` // relative name of the message / enum type ("" for scalars)
	Card     string `json:"card"`     // "optional" (singular) | "repeated"
	Oneof    string `json:"oneof"`    // oneof group name or ""
	Opt3     bool   `json:"opt3"`     // proto3 `optional` keyword (synthetic oneof)
}
type Message struct {
	Name   string  `json:"name"` // name relative to the package, nested ones dotted
	Fields []Field `json:"fields"`
}
type EnumValue struct {
	Name   string `json:"name"`
	Number int    `json:"number"`
}
type Enum struct {
	Name   string      `json:"name"`
	Values []EnumValue `json:"values"`
}
type Method struct {
	Name      string `json:"name"`
	Input     string `json:"input"`
	Output    string `json:"output"`
	ClientStr bool   `json:"clientstream"`
	ServerStr bool   `json:"serverstream"`
	HTTPVerb  string `json:"httpverb"`
	HTTPPath  string `json:"httppath"`
	HTTPBody  string `json:"httpbody"`
}
type Service struct {
	Name    string   `json:"name"`
	Methods []Method `json:"methods"`
}
type File struct {
	Package  string    `json:"package"`
	Services []Service `json:"services"`
	Messages []Message `json:"messages"`
	Enums    []Enum    `json:"enums"`
}

func rel(pkg string, full protoreflect.FullName) string {
	s := string(full)
	if len(s) > len(pkg)+1 && s[:len(pkg)+1] == pkg+"." {
		return s[len(pkg)+1:]
	}
	return s // a type from another package (google.protobuf.Timestamp) keeps its full name
}

func Dump(fd protoreflect.FileDescriptor, w io.Writer) error {
	pkg := string(fd.Package())
	out := File{Package: pkg, Services: []Service{}, Messages: []Message{}, Enums: []Enum{}}
	var walkMsgs func(ms protoreflect.MessageDescriptors)
	var walkEnums func(es protoreflect.EnumDescriptors)
	walkEnums = func(es protoreflect.EnumDescriptors) {
		for i := 0; i < es.Len(); i++ {
			e := es.Get(i)
			en := Enum{Name: rel(pkg, e.FullName()), Values: []EnumValue{}}
			for j := 0; j < e.Values().Len(); j++ {
				v := e.Values().Get(j)
				en.Values = append(en.Values, EnumValue{Name: string(v.Name()), Number: int(v.Number())})
			}
			out.Enums = append(out.Enums, en)
		}
	}
	walkMsgs = func(ms protoreflect.MessageDescriptors) {
		for i := 0; i < ms.Len(); i++ {
			m := ms.Get(i)
			mm := Message{Name: rel(pkg, m.FullName()), Fields: []Field{}}
			for j := 0; j < m.Fields().Len(); j++ {
				f := m.Fields().Get(j)
				ff := Field{Name: string(f.Name()), Number: int(f.Number()), Kind: f.Kind().String(), Card: "optional"}
				if f.Cardinality() == protoreflect.Repeated {
					ff.Card = "repeated"
				}
				if f.IsMap() {
					ff.Card = "map"
				}
				switch f.Kind() {
				case protoreflect.MessageKind, protoreflect.GroupKind:
					ff.Kind = "message"
					ff.TypeName = rel(pkg, f.Message().FullName())
				case protoreflect.EnumKind:
					ff.Kind = "enum"
					ff.TypeName = rel(pkg, f.Enum().FullName())
				}
				if od := f.ContainingOneof(); od != nil {
					if od.IsSynthetic() {
						ff.Opt3 = true
					} else {
						ff.Oneof = string(od.Name())
					}
				}
				mm.Fields = append(mm.Fields, ff)
			}
			out.Messages = append(out.Messages, mm)
			walkMsgs(m.Messages())
			walkEnums(m.Enums())
		}
	}
	walkMsgs(fd.Messages())
	walkEnums(fd.Enums())
	for i := 0; i < fd.Services().Len(); i++ {
		s := fd.Services().Get(i)
		ss := Service{Name: string(s.Name()), Methods: []Method{}}
		for j := 0; j < s.Methods().Len(); j++ {
			m := s.Methods().Get(j)
			mm := Method{Name: string(m.Name()), Input: rel(pkg, m.Input().FullName()), Output: rel(pkg, m.Output().FullName()),
				ClientStr: m.IsStreamingClient(), ServerStr: m.IsStreamingServer()}
			if opts := m.Options(); opts != nil && proto.HasExtension(opts, annotations.E_Http) {
				r := proto.GetExtension(opts, annotations.E_Http).(*annotations.HttpRule)
				switch p := r.Pattern.(type) {
				case *annotations.HttpRule_Get:
					mm.HTTPVerb, mm.HTTPPath = "get", p.Get
				case *annotations.HttpRule_Post:
					mm.HTTPVerb, mm.HTTPPath = "post", p.Post
				case *annotations.HttpRule_Put:
					mm.HTTPVerb, mm.HTTPPath = "put", p.Put
				case *annotations.HttpRule_Delete:
					mm.HTTPVerb, mm.HTTPPath = "delete", p.Delete
				case *annotations.HttpRule_Patch:
					mm.HTTPVerb, mm.HTTPPath = "patch", p.Patch
				}
				mm.HTTPBody = r.Body
				if len(r.AdditionalBindings) > 0 {
					mm.HTTPVerb += "+additional"
				}
			}
			ss.Methods = append(ss.Methods, mm)
		}
		out.Services = append(out.Services, ss)
	}
	e := json.NewEncoder(w)
	e.SetEscapeHTML(false)
	return e.Encode(out)
}
