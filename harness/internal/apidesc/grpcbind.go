package apidesc

import (
	"context"
	"errors"
	"reflect"

	"google.golang.org/grpc"
)

// Binding is what the generated gRPC code really uses for one method: the path the client stub sends and the
// full method name the server handler reports.
type Binding struct {
	Name   string `json:"name"`   // MethodName of the service descriptor entry
	Client string `json:"client"` // path passed to ClientConn.Invoke by the client stub of that name ("" if no such stub)
	Server string `json:"server"` // info.FullMethod the handler hands to interceptors
}
type Grpc struct {
	Service string    `json:"service"` // ServiceDesc.ServiceName
	Methods []Binding `json:"methods"`
}

// RecConn is a grpc.ClientConnInterface that records the method path of the last call.
type RecConn struct{ Last string }

func (c *RecConn) Invoke(ctx context.Context, method string, args, reply any, opts ...grpc.CallOption) error {
	c.Last = method
	return nil
}
func (c *RecConn) NewStream(ctx context.Context, desc *grpc.StreamDesc, method string, opts ...grpc.CallOption) (grpc.ClientStream, error) {
	c.Last = method
	return nil, errors.New("streams are not recorded")
}

// GrpcBindings drives every client stub and every server handler of the generated code once.
func GrpcBindings(conn *RecConn, client any, desc grpc.ServiceDesc, srv any) Grpc {
	out := Grpc{Service: desc.ServiceName, Methods: []Binding{}}
	cv := reflect.ValueOf(client)
	for _, m := range desc.Methods {
		b := Binding{Name: m.MethodName}
		if stub := cv.MethodByName(m.MethodName); stub.IsValid() && stub.Type().NumIn() >= 2 {
			conn.Last = ""
			req := reflect.New(stub.Type().In(1).Elem())
			stub.Call([]reflect.Value{reflect.ValueOf(context.Background()), req})
			b.Client = conn.Last
		}
		m.Handler(srv, context.Background(), func(any) error { return nil },
			func(ctx context.Context, req any, info *grpc.UnaryServerInfo, handler grpc.UnaryHandler) (any, error) {
				b.Server = info.FullMethod
				return nil, nil
			})
		out.Methods = append(out.Methods, b)
	}
	return out
}
