// Command apidesc3alpha dumps the descriptors linked into deps.dev/api/v3alpha.
package main

import (
	"fmt"
	"os"

	pb "deps.dev/api/v3alpha"
	"deps.dev/util/resolve/verifh/internal/apidesc"
)

func main() {
	if err := apidesc.Dump(pb.File_api_proto, os.Stdout); err != nil {
		fmt.Fprintln(os.Stderr, err)
		os.Exit(2)
	}
}
