// Command apidesc3alpha dumps the descriptors linked into deps.dev/api/v3alpha.
package main

import (
	"encoding/json"
	"fmt"
	"os"

	pb "deps.dev/api/v3alpha"
	"deps.dev/util/resolve/verifh/internal/apidesc"
)

func main() {
	if len(os.Args) > 1 && os.Args[1] == "grpc" {
		conn := &apidesc.RecConn{}
		b := apidesc.GrpcBindings(conn, pb.NewInsightsClient(conn), pb.Insights_ServiceDesc, pb.UnimplementedInsightsServer{})
		json.NewEncoder(os.Stdout).Encode(b)
		return
	}
	if err := apidesc.Dump(pb.File_api_proto, os.Stdout); err != nil {
		fmt.Fprintln(os.Stderr, err)
		os.Exit(2)
	}
}
