package main

import (
	"fmt"
	"math/rand"
	"sort"
	"strconv"
	"strings"

	"deps.dev/util/resolve/dep"
	"deps.dev/util/resolve/internal/deptest"
	"deps.dev/util/resolve/internal/versiontest"
	"deps.dev/util/resolve/version"
)

func init() { commands["attr"] = cmdAttr }

type attrOp struct {
	Op   string `json:"op"`
	Slot int    `json:"slot"`
	Key  string `json:"key"`
	Val  string `json:"val"`
	Flag string `json:"flag"`
	Src  int    `json:"src"`
}
type attrHist struct {
	Ops []attrOp `json:"ops"`
}
type kvRec struct {
	K string `json:"k"`
	V string `json:"v"`
}
type slotObs struct {
	Flags   []string `json:"flags"`
	KV      []kvRec  `json:"kv"`
	Regular bool     `json:"regular"`
	Text    string   `json:"text"`
	RtOk    bool     `json:"rtok"` // written in the schema syntax and parsed back: Equal to the slot
}
type famObs struct {
	Slots []slotObs `json:"slots"`
	Cmp   [][]int   `json:"cmp"`
	Eq    [][]bool  `json:"eq"`
}
type attrStep struct {
	Op  attrOp `json:"op"`
	Dep famObs `json:"dep"`
	Ver famObs `json:"ver"`
}
type attrHistObs struct {
	Kind  string     `json:"kind"`
	Steps []attrStep `json:"steps"`
}
type attrOrderObs struct {
	Kind string    `json:"kind"`
	Fam  string    `json:"fam"`
	Pool []slotObs `json:"pool"`
	Cmp  [][]int   `json:"cmp"`
}

var depFlag = map[string]dep.AttrKey{"f1": dep.Dev, "f2": dep.Opt, "f3": dep.Test}
var depKey = map[string]dep.AttrKey{"k1": dep.Scope, "k2": dep.KnownAs, "k3": dep.Environment}
var verFlag = map[string]version.AttrKey{"f1": version.Blocked, "f2": version.Deleted, "f3": version.Error}
var verKey = map[string]version.AttrKey{"k1": version.Redirect, "k2": version.Tags, "k3": version.Registries}
var flagNames = []string{"f1", "f2", "f3"}
var keyNames = []string{"k1", "k2", "k3"}

func quoteIfNeeded(v string) string {
	if v == "" || strings.ContainsAny(v, " \t\"`\\") {
		return strconv.Quote(v)
	}
	return v
}

// Writers following the documented test schema syntax: dependency types are space-separated keys and
// values, a value is quoted when it is empty or contains spaces or quotes; version attributes are
// written one per "ATTR:" line (key, then the possibly quoted value).
func writeDep(t dep.Type) string {
	var parts []string
	for _, f := range flagNames {
		if t.HasAttr(depFlag[f]) {
			parts = append(parts, depFlag[f].String())
		}
	}
	for _, k := range keyNames {
		if v, ok := t.GetAttr(depKey[k]); ok {
			parts = append(parts, depKey[k].String(), quoteIfNeeded(v))
		}
	}
	return strings.Join(parts, " ")
}

func parseDep(s string) (dep.Type, error) { return deptest.ParseString(s) }

func writeVer(a version.AttrSet) []string {
	var lines []string
	for _, f := range flagNames {
		if a.HasAttr(verFlag[f]) {
			lines = append(lines, verFlag[f].String())
		}
	}
	for _, k := range keyNames {
		if v, ok := a.GetAttr(verKey[k]); ok {
			lines = append(lines, verKey[k].String()+" "+quoteIfNeeded(v))
		}
	}
	return lines
}

func parseVer(lines []string) (version.AttrSet, error) {
	var out version.AttrSet
	for _, l := range lines {
		a, err := versiontest.ParseSingle(l)
		if err != nil {
			return out, err
		}
		a.ForEachAttr(func(k version.AttrKey, v string) { out.SetAttr(k, v) })
	}
	return out, nil
}

func obsDep(t dep.Type) slotObs {
	o := slotObs{Flags: []string{}, KV: []kvRec{}, Regular: t.IsRegular()}
	for _, f := range flagNames {
		if t.HasAttr(depFlag[f]) {
			o.Flags = append(o.Flags, f)
		}
	}
	for _, k := range keyNames {
		if v, ok := t.GetAttr(depKey[k]); ok {
			o.KV = append(o.KV, kvRec{k, v})
		}
	}
	o.Text = writeDep(t)
	if back, err := parseDep(o.Text); err == nil && back.Equal(t) && t.Equal(back) {
		o.RtOk = true
	}
	return o
}

func obsVer(a version.AttrSet) slotObs {
	o := slotObs{Flags: []string{}, KV: []kvRec{}, Regular: a.Empty()}
	for _, f := range flagNames {
		if a.HasAttr(verFlag[f]) {
			o.Flags = append(o.Flags, f)
		}
	}
	for _, k := range keyNames {
		if v, ok := a.GetAttr(verKey[k]); ok {
			o.KV = append(o.KV, kvRec{k, v})
		}
	}
	lines := writeVer(a)
	o.Text = strings.Join(lines, " ; ")
	if back, err := parseVer(lines); err == nil && back.Equal(a) && a.Equal(back) {
		o.RtOk = true
	}
	return o
}

func cmdAttr(args []string) error {
	if len(args) < 3 {
		return fmt.Errorf("usage: attr hists obs seed")
	}
	hists, err := readNDJSON[attrHist](args[0])
	if err != nil {
		return err
	}
	var seed int64
	fmt.Sscan(args[2], &seed)
	w, err := newNDWriter(args[1])
	if err != nil {
		return err
	}
	defer w.Close()
	depPool := map[string]dep.Type{}
	verPool := map[string]version.AttrSet{}
	for _, h := range hists {
		var ds [3]dep.Type
		var vs [3]version.AttrSet
		ho := attrHistObs{Kind: "hist"}
		for _, op := range h.Ops {
			i := op.Slot - 1
			switch op.Op {
			case "set":
				ds[i].AddAttr(depKey[op.Key], op.Val)
				vs[i].SetAttr(verKey[op.Key], op.Val)
			case "flag":
				ds[i].AddAttr(depFlag[op.Flag], "")
				vs[i].SetAttr(verFlag[op.Flag], "")
			case "clone":
				ds[i] = ds[op.Src-1].Clone()
				vs[i] = vs[op.Src-1].Clone()
			}
			st := attrStep{Op: op}
			for k := 0; k < 3; k++ {
				st.Dep.Slots = append(st.Dep.Slots, obsDep(ds[k]))
				st.Ver.Slots = append(st.Ver.Slots, obsVer(vs[k]))
				dc, vc := make([]int, 3), make([]int, 3)
				de, ve := make([]bool, 3), make([]bool, 3)
				for j := 0; j < 3; j++ {
					dc[j] = ds[k].Compare(ds[j])
					de[j] = ds[k].Equal(ds[j])
					ve[j] = vs[k].Equal(vs[j])
					// version.AttrSet exposes only Equal; order it through its dep twin for the matrix
					// version.AttrSet has no public Compare: 0 when Equal, otherwise a fixed sign by slot
					// index (so that only the equality information is judged).
					switch {
					case ve[j]:
						vc[j] = 0
					case k < j:
						vc[j] = -1
					default:
						vc[j] = 1
					}
				}
				st.Dep.Cmp = append(st.Dep.Cmp, dc)
				st.Dep.Eq = append(st.Dep.Eq, de)
				st.Ver.Cmp = append(st.Ver.Cmp, vc)
				st.Ver.Eq = append(st.Ver.Eq, ve)
			}
			ho.Steps = append(ho.Steps, st)
		}
		for k := 0; k < 3; k++ {
			depPool[ds[k].String()] = ds[k].Clone()
			verPool[vs[k].String()] = vs[k].Clone()
		}
		if err := w.Write(&ho); err != nil {
			return err
		}
	}
	// order laws on a seeded sample of the reached dep.Type values
	var keys []string
	for k := range depPool {
		keys = append(keys, k)
	}
	sort.Strings(keys)
	rng := rand.New(rand.NewSource(seed))
	rng.Shuffle(len(keys), func(a, b int) { keys[a], keys[b] = keys[b], keys[a] })
	for start := 0; start < len(keys) && start < 600; start += 60 {
		end := start + 60
		if end > len(keys) {
			end = len(keys)
		}
		oo := attrOrderObs{Kind: "order", Fam: "dep"}
		for _, k := range keys[start:end] {
			oo.Pool = append(oo.Pool, obsDep(depPool[k]))
		}
		for _, a := range keys[start:end] {
			row := make([]int, 0, end-start)
			for _, b := range keys[start:end] {
				ta, tb := depPool[a], depPool[b]
				row = append(row, ta.Compare(tb))
			}
			oo.Cmp = append(oo.Cmp, row)
		}
		if err := w.Write(&oo); err != nil {
			return err
		}
	}
	return nil
}
