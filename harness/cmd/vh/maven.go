package main

import (
	"context"
	"encoding/json"
	"fmt"
	"os"
	"strings"

	"deps.dev/util/resolve"
	"deps.dev/util/resolve/dep"
	"deps.dev/util/resolve/maven"
	"deps.dev/util/resolve/version"
)

func init() { commands["maven"] = cmdMaven }

type mDep struct {
	Name  string   `json:"name"`
	G     string   `json:"g"`
	A     string   `json:"a"`
	R     int      `json:"r"`
	Scope string   `json:"scope"`
	Opt   bool     `json:"opt"`
	Typ   string   `json:"typ"`
	Cls   string   `json:"cls"`
	Excl  []string `json:"excl"`
	Mgmt  bool     `json:"mgmt"`
}
type mVer struct {
	V    int    `json:"v"`
	Deps []mDep `json:"deps"`
}
type mArt struct {
	Name     string `json:"name"`
	G        string `json:"g"`
	A        string `json:"a"`
	Versions []mVer `json:"versions"`
}
type mCase struct {
	Universe []mArt          `json:"universe"`
	Root     uRoot           `json:"root"`
	SoftOnly bool            `json:"softonly"`
	Model    json.RawMessage `json:"model,omitempty"` // graph the algorithm model (MavenResolve.tla) returns; passed through to the trace
}
type mEdge struct {
	F     int      `json:"f"`
	T     int      `json:"t"`
	R     int      `json:"r"`
	Scope string   `json:"scope"`
	Opt   bool     `json:"opt"`
	Test  bool     `json:"test"`
	Typ   string   `json:"typ"`
	Cls   string   `json:"cls"`
	Sel   bool     `json:"sel"`
	Excl  []string `json:"excl"`
}
type mGraph struct {
	Nodes []nNode `json:"nodes"`
	Edges []mEdge `json:"edges"`
}
type mObs struct {
	Universe  []mArt          `json:"universe"`
	Root      uRoot           `json:"root"`
	SoftOnly  bool            `json:"softonly"`
	Ok        bool            `json:"ok"`
	Err       string          `json:"err"`
	GErr      string          `json:"gerr"`
	Graph     mGraph          `json:"graph"`
	Unmapped  string          `json:"unmapped"`
	Model     json.RawMessage `json:"model,omitempty"`
	Restarted bool            `json:"restarted"` // the resolution abandoned at least one attempt (reported by the hook)
}

func mavenDepType(d mDep) dep.Type {
	var t dep.Type
	switch d.Scope {
	case "test":
		t.AddAttr(dep.Test, "")
		t.AddAttr(dep.Scope, "test")
	case "provided", "runtime":
		t.AddAttr(dep.Scope, d.Scope)
	}
	if d.Opt {
		t.AddAttr(dep.Opt, "")
	}
	if d.Typ != "" {
		t.AddAttr(dep.MavenArtifactType, d.Typ)
	}
	if d.Cls != "" {
		t.AddAttr(dep.MavenClassifier, d.Cls)
	}
	if len(d.Excl) > 0 {
		t.AddAttr(dep.MavenExclusions, strings.Join(d.Excl, "|"))
	}
	if d.Mgmt {
		t.AddAttr(dep.MavenDependencyOrigin, "management")
	}
	return t
}

func loadMavenUniverse(c mCase, versions, reqs []string) *resolve.LocalClient {
	lc := resolve.NewLocalClient()
	for _, p := range c.Universe {
		for _, v := range p.Versions {
			var deps []resolve.RequirementVersion
			for _, d := range v.Deps {
				deps = append(deps, resolve.RequirementVersion{
					VersionKey: resolve.VersionKey{PackageKey: resolve.PackageKey{System: resolve.Maven, Name: d.Name}, VersionType: resolve.Requirement, Version: reqs[d.R-1]},
					Type:       mavenDepType(d)})
			}
			lc.AddVersion(resolve.Version{VersionKey: resolve.VersionKey{PackageKey: resolve.PackageKey{System: resolve.Maven, Name: p.Name}, VersionType: resolve.Concrete, Version: versions[v.V-1]}, AttrSet: version.AttrSet{}}, deps)
		}
	}
	return lc
}

// cmdMaven: vh maven <tables.json> <cases.ndjson> <obs.ndjson>
func cmdMaven(args []string) error {
	if len(args) < 3 {
		return fmt.Errorf("usage: maven tables cases obs")
	}
	var tb npmTables
	b, err := os.ReadFile(args[0])
	if err != nil {
		return err
	}
	if err := json.Unmarshal(b, &tb); err != nil {
		return err
	}
	vidx, ridx := map[string]int{}, map[string]int{}
	for i, t := range tb.Versions {
		vidx[t] = i + 1
	}
	for i, t := range tb.Reqs {
		ridx[t] = i + 1
	}
	cases, err := readNDJSON[mCase](args[1])
	if err != nil {
		return err
	}
	w, err := newNDWriter(args[2])
	if err != nil {
		return err
	}
	defer w.Close()
	ctx := context.Background()
	// VERIF_STEPS=<file>: also record the resolver's own account of every step (hook maven.VerifStep, build tag verif),
	// one "start" event with the universe per resolution followed by the events the resolver emits.
	var steps *ndWriter
	type stepEv struct {
		Ev       string `json:"ev"`
		Universe []mArt `json:"universe,omitempty"`
		Name     string `json:"name"`
		V        int    `json:"v"`
		R        int    `json:"r"`
		Outcome  string `json:"outcome"`
		Nodes    int    `json:"nodes"`
		Edges    int    `json:"edges"`
	}
	var (
		stepBuf []stepEv
		stepGen int
	)
	if f := os.Getenv("VERIF_STEPS"); f != "" {
		var err error
		if steps, err = newNDWriter(f); err != nil {
			return err
		}
		defer steps.Close()
	}
	for _, c := range cases {
		// The hook always runs: the harness notes whether the resolution restarted, which the trace specification needs to
		// tell the recorded stale-requirement deviation (C07-F25) from anything else.
		stepGen++
		gen := stepGen
		stepBuf = []stepEv{{Ev: "start", Universe: c.Universe}}
		restarted := false
		maven.VerifStep = func(ev, name, ver, req, outcome string, nodes, edges int) {
			if gen != stepGen {
				return // an abandoned resolution still running
			}
			if ev == "restart" {
				restarted = true
			}
			if steps == nil {
				return
			}
			stepBuf = append(stepBuf, stepEv{Ev: ev, Name: name, V: vidx[ver], R: ridx[req], Outcome: outcome, Nodes: nodes, Edges: edges})
		}
		o := mObs{Universe: c.Universe, Root: c.Root, SoftOnly: c.SoftOnly, Graph: mGraph{Nodes: []nNode{}, Edges: []mEdge{}}, Model: c.Model}
		lc := loadMavenUniverse(c, tb.Versions, tb.Reqs)
		g, err := guarded(func() (*resolve.Graph, error) {
			return maven.NewResolver(lc).Resolve(ctx, resolve.VersionKey{PackageKey: resolve.PackageKey{System: resolve.Maven, Name: c.Root.Name}, VersionType: resolve.Concrete, Version: tb.Versions[c.Root.V-1]})
		})
		maven.VerifStep = nil
		stepGen++
		o.Restarted = restarted
		if steps != nil {
			for i := range stepBuf {
				if e := steps.Write(&stepBuf[i]); e != nil {
					return e
				}
			}
		}
		if err != nil || g == nil {
			if err != nil {
				o.Err = err.Error()
			}
			if e := w.Write(&o); e != nil {
				return e
			}
			continue
		}
		o.Ok = true
		o.GErr = g.Error
		if os.Getenv("VERIF_DEBUG") != "" {
			fmt.Fprintln(os.Stderr, g.String())
		}
		for _, n := range g.Nodes {
			nn := nNode{Name: n.Version.Name, V: vidx[n.Version.Version], Errs: []nErr{}}
			if nn.V == 0 {
				o.Unmapped = "node version " + n.Version.Version
			}
			for _, e := range n.Errors {
				nn.Errs = append(nn.Errs, nErr{Name: e.Req.Name, R: ridx[e.Req.Version]})
			}
			o.Graph.Nodes = append(o.Graph.Nodes, nn)
		}
		for _, e := range g.Edges {
			r := ridx[e.Requirement]
			if r == 0 {
				o.Unmapped = "edge requirement " + e.Requirement
			}
			me := mEdge{F: int(e.From) + 1, T: int(e.To) + 1, R: r, Opt: e.Type.HasAttr(dep.Opt), Test: e.Type.HasAttr(dep.Test), Sel: e.Type.HasAttr(dep.Selector), Excl: []string{}}
			me.Scope, _ = e.Type.GetAttr(dep.Scope)
			me.Typ, _ = e.Type.GetAttr(dep.MavenArtifactType)
			me.Cls, _ = e.Type.GetAttr(dep.MavenClassifier)
			if x, ok := e.Type.GetAttr(dep.MavenExclusions); ok && x != "" {
				me.Excl = strings.FieldsFunc(x, func(r rune) bool { return r == '|' || r == ',' })
			}
			o.Graph.Edges = append(o.Graph.Edges, me)
		}
		if e := w.Write(&o); e != nil {
			return e
		}
	}
	return nil
}
