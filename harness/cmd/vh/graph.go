package main

import (
	"fmt"
	"math/rand"

	"deps.dev/util/resolve"
)

func init() { commands["graph"] = cmdGraph }

type gNode struct {
	Ver  string   `json:"ver"`
	Errs []string `json:"errs"`
}
type gEdge struct {
	F   int    `json:"f"`
	T   int    `json:"t"`
	Req string `json:"req"`
	Typ string `json:"typ"`
}
type gGraph struct {
	Nodes []gNode `json:"nodes"`
	Edges []gEdge `json:"edges"`
}
type gMember struct {
	Input gGraph `json:"input"`
	Ok    bool   `json:"ok"`
	Err   string `json:"err"`
	Out   gGraph `json:"out"`
	Ok2   bool   `json:"ok2"`
	Out2  gGraph `json:"out2"`
}
type gOrbit struct {
	Small   bool      `json:"small"`
	Members []gMember `json:"members"`
}

func toReal(g gGraph) *resolve.Graph {
	rg := &resolve.Graph{}
	for _, n := range g.Nodes {
		id := rg.AddNode(resolve.VersionKey{PackageKey: resolve.PackageKey{System: resolve.NPM, Name: "pkg"}, VersionType: resolve.Concrete, Version: n.Ver})
		for _, e := range n.Errs {
			rg.AddError(id, resolve.VersionKey{PackageKey: resolve.PackageKey{System: resolve.NPM, Name: "dep"}, VersionType: resolve.Requirement, Version: "r"}, e)
		}
	}
	for _, e := range g.Edges {
		rg.AddEdge(resolve.NodeID(e.F-1), resolve.NodeID(e.T-1), e.Req, depType(e.Typ))
	}
	return rg
}

func fromReal(rg *resolve.Graph) gGraph {
	g := gGraph{Nodes: []gNode{}, Edges: []gEdge{}}
	for _, n := range rg.Nodes {
		gn := gNode{Ver: n.Version.Version, Errs: []string{}}
		for _, e := range n.Errors {
			gn.Errs = append(gn.Errs, e.Error)
		}
		g.Nodes = append(g.Nodes, gn)
	}
	for _, e := range rg.Edges {
		g.Edges = append(g.Edges, gEdge{F: int(e.From) + 1, T: int(e.To) + 1, Req: e.Requirement, Typ: kindOf(e.Type)})
	}
	return g
}

// variant builds one member of the orbit: p maps old node (0-based) to new, root fixed.
func variant(g gGraph, p []int, rng *rand.Rand, reverse bool) gGraph {
	n := len(g.Nodes)
	h := gGraph{Nodes: make([]gNode, n)}
	for i, nd := range g.Nodes {
		errs := append([]string{}, nd.Errs...)
		if rng != nil {
			rng.Shuffle(len(errs), func(a, b int) { errs[a], errs[b] = errs[b], errs[a] })
		} else if reverse {
			for i, j := 0, len(errs)-1; i < j; i, j = i+1, j-1 {
				errs[i], errs[j] = errs[j], errs[i]
			}
		}
		h.Nodes[p[i]] = gNode{Ver: nd.Ver, Errs: errs}
	}
	for _, e := range g.Edges {
		h.Edges = append(h.Edges, gEdge{F: p[e.F-1] + 1, T: p[e.T-1] + 1, Req: e.Req, Typ: e.Typ})
	}
	if h.Edges == nil {
		h.Edges = []gEdge{}
	}
	if reverse {
		for i, j := 0, len(h.Edges)-1; i < j; i, j = i+1, j-1 {
			h.Edges[i], h.Edges[j] = h.Edges[j], h.Edges[i]
		}
	}
	if rng != nil {
		rng.Shuffle(len(h.Edges), func(a, b int) { h.Edges[a], h.Edges[b] = h.Edges[b], h.Edges[a] })
	}
	return h
}

func runMember(in gGraph) gMember {
	m := gMember{Input: in, Out: gGraph{Nodes: []gNode{}, Edges: []gEdge{}}, Out2: gGraph{Nodes: []gNode{}, Edges: []gEdge{}}}
	rg := toReal(in)
	if err := rg.Canon(); err != nil {
		m.Err = err.Error()
		return m
	}
	m.Ok = true
	m.Out = fromReal(rg)
	if err := rg.Canon(); err == nil {
		m.Ok2 = true
		m.Out2 = fromReal(rg)
	}
	return m
}

func randomGraph(rng *rand.Rand) gGraph {
	n := 1 + rng.Intn(40)
	vers := []string{"a", "b", "c", "d", "e", "f", "g", "h"}[:2+rng.Intn(7)]
	g := gGraph{Edges: []gEdge{}}
	for i := 0; i < n; i++ {
		nd := gNode{Ver: vers[rng.Intn(len(vers))], Errs: []string{}}
		for k := rng.Intn(4) - 1; k > 0; k-- {
			nd.Errs = append(nd.Errs, []string{"e1", "e2", "e3"}[rng.Intn(3)])
		}
		g.Nodes = append(g.Nodes, nd)
	}
	// a spanning structure so that most graphs are connected, then extra edges, parallel edges, self-loops, cycles
	seen := map[gEdge]bool{}
	add := func(e gEdge) {
		if !seen[e] {
			seen[e] = true
			g.Edges = append(g.Edges, e)
		}
	}
	for i := 1; i < n; i++ {
		if rng.Intn(10) > 0 {
			add(gEdge{F: rng.Intn(i) + 1, T: i + 1, Req: "r1", Typ: "reg"})
		}
	}
	for k := rng.Intn(2 * n); k > 0; k-- {
		add(gEdge{F: rng.Intn(n) + 1, T: rng.Intn(n) + 1, Req: []string{"r1", "r2"}[rng.Intn(2)], Typ: []string{"reg", "dev", "opt"}[rng.Intn(3)]})
	}
	return g
}

// cmdGraph: vh graph <bases.ndjson|-> <obs.ndjson> <seed> <nrandom>
func cmdGraph(args []string) error {
	if len(args) < 4 {
		return fmt.Errorf("usage: graph bases obs seed nrandom")
	}
	var bases []gGraph
	var err error
	if args[0] != "-" {
		bases, err = readNDJSON[gGraph](args[0])
		if err != nil {
			return err
		}
	}
	var seed int64
	var nrand int
	fmt.Sscan(args[2], &seed)
	fmt.Sscan(args[3], &nrand)
	w, err := newNDWriter(args[1])
	if err != nil {
		return err
	}
	defer w.Close()
	for _, g := range bases {
		n := len(g.Nodes)
		o := gOrbit{Small: true}
		for _, p := range permutations(n-1, 200) {
			full := make([]int, n)
			for i, x := range p {
				full[i+1] = x + 1
			}
			o.Members = append(o.Members, runMember(variant(g, full, nil, false)))
			o.Members = append(o.Members, runMember(variant(g, full, nil, true)))
		}
		if err := w.Write(&o); err != nil {
			return err
		}
	}
	rng := rand.New(rand.NewSource(seed))
	for k := 0; k < nrand; k++ {
		g := randomGraph(rng)
		n := len(g.Nodes)
		o := gOrbit{Small: n <= 5}
		for r := 0; r < 20; r++ {
			full := make([]int, n)
			for i, x := range rng.Perm(n - 1) {
				full[i+1] = x + 1
			}
			o.Members = append(o.Members, runMember(variant(g, full, rng, false)))
		}
		if err := w.Write(&o); err != nil {
			return err
		}
	}
	return nil
}
