package main

import (
	"context"
	"fmt"
	"sort"
	"strings"
	"sync"

	pb "deps.dev/api/v3"
	"deps.dev/util/resolve"
	"deps.dev/util/resolve/dep"
	"deps.dev/util/resolve/npm"
	"deps.dev/util/resolve/version"
	"google.golang.org/grpc"
	"google.golang.org/grpc/codes"
	"google.golang.org/grpc/status"
)

func init() { commands["api"] = cmdAPI }

type aDep struct {
	Name  string `json:"name"`
	Alias string `json:"alias"`
	Req   string `json:"req"`
}
type aDeps struct {
	Reg    []aDep   `json:"reg"`
	Dev    []aDep   `json:"dev"`
	Opt    []aDep   `json:"opt"`
	Peer   []aDep   `json:"peer"`
	Bundle []string `json:"bundle"`
}
type aBundled struct {
	Path    []string `json:"path"`
	Name    string   `json:"name"`
	Version string   `json:"version"`
	Deps    aDeps    `json:"deps"`
}
type aResp struct {
	Deps    aDeps      `json:"deps"`
	Bundled []aBundled `json:"bundled"`
}
type aRoot struct {
	Name    string `json:"name"`
	Version string `json:"version"`
}
type aReq struct {
	Name    string `json:"name"`
	Req     string `json:"req"`
	Kind    string `json:"kind"`
	KnownAs string `json:"knownas"`
}
type aModelB struct {
	Name        string `json:"name"`
	Version     string `json:"version"`
	DerivedFrom string `json:"derivedfrom"`
	Reqs        []aReq `json:"reqs"`
}
type apiCase struct {
	Root     aRoot     `json:"root"`
	Resp     aResp     `json:"resp"`
	RootReqs []aReq    `json:"rootreqs"` // the model's expectation (used to load the in-memory client)
	Bundled  []aModelB `json:"bundled"`
}
type aBundledObs struct {
	Name          string   `json:"name"`
	VFound        bool     `json:"vfound"`
	VVersion      string   `json:"vversion"`
	DerivedFrom   string   `json:"derivedfrom"`
	Versions      []string `json:"versions"`
	Matching      []string `json:"matching"`      // MatchingVersions(requirement = its version)
	MatchingOther []string `json:"matchingother"` // MatchingVersions(requirement = another version)
	RFound        bool     `json:"rfound"`
	Reqs          []aReq   `json:"reqs"`
}
type apiObs struct {
	Root        aRoot         `json:"root"`
	Resp        aResp         `json:"resp"`
	RootReqs    []aReq        `json:"rootreqs"`
	Bundled     []aBundledObs `json:"bundled"`
	APIDigest   string        `json:"apidigest"`
	LocalDigest string        `json:"localdigest"`
	Concurrent  []string      `json:"concurrent"`
	Race        string        `json:"race"`
}

// regular (non-bundled) packages the fake service knows; the in-memory client gets the same.
var fakeRegistry = map[string][]string{"x": {"1.0.0", "1.1.0"}, "y": {"1.0.0"}, "@s/c": {"1.0.0", "1.2.0"}, "o": {"2.0.0"}, "a": {"1.0.0", "1.1.0", "2.0.0"}, "b": {"2.0.0"}, "d": {"1.0.0"}, "p": {"1.0.0"}}

type fakeInsights struct {
	pb.InsightsClient
	c apiCase
}

func pbDeps(d aDeps) *pb.Requirements_NPM_Dependencies {
	conv := func(ds []aDep) []*pb.Requirements_NPM_Dependencies_Dependency {
		var out []*pb.Requirements_NPM_Dependencies_Dependency
		for _, x := range ds {
			req := x.Req
			if x.Alias != "" {
				req = "npm:" + x.Alias + "@" + x.Req
			}
			out = append(out, &pb.Requirements_NPM_Dependencies_Dependency{Name: x.Name, Requirement: req})
		}
		return out
	}
	return &pb.Requirements_NPM_Dependencies{Dependencies: conv(d.Reg), DevDependencies: conv(d.Dev), OptionalDependencies: conv(d.Opt),
		PeerDependencies: conv(d.Peer), BundleDependencies: append([]string(nil), d.Bundle...)}
}

func (f *fakeInsights) GetPackage(ctx context.Context, in *pb.GetPackageRequest, opts ...grpc.CallOption) (*pb.Package, error) {
	name := in.PackageKey.Name
	var vers []string
	if name == f.c.Root.Name {
		vers = []string{f.c.Root.Version}
	} else if vs, ok := fakeRegistry[name]; ok {
		vers = vs
	} else {
		return nil, status.Error(codes.NotFound, "no such package")
	}
	p := &pb.Package{PackageKey: in.PackageKey}
	for i, v := range vers {
		p.Versions = append(p.Versions, &pb.Package_Version{VersionKey: &pb.VersionKey{System: pb.System_NPM, Name: name, Version: v}, IsDefault: i == len(vers)-1})
	}
	return p, nil
}

func (f *fakeInsights) GetVersion(ctx context.Context, in *pb.GetVersionRequest, opts ...grpc.CallOption) (*pb.Version, error) {
	name, ver := in.VersionKey.Name, in.VersionKey.Version
	var vers []string
	if name == f.c.Root.Name {
		vers = []string{f.c.Root.Version}
	} else {
		vers = fakeRegistry[name]
	}
	for i, v := range vers {
		if v == ver {
			return &pb.Version{VersionKey: in.VersionKey, IsDefault: i == len(vers)-1}, nil
		}
	}
	return nil, status.Error(codes.NotFound, "no such version")
}

func (f *fakeInsights) GetRequirements(ctx context.Context, in *pb.GetRequirementsRequest, opts ...grpc.CallOption) (*pb.Requirements, error) {
	name, ver := in.VersionKey.Name, in.VersionKey.Version
	if name == f.c.Root.Name && ver == f.c.Root.Version {
		r := &pb.Requirements_NPM{Dependencies: pbDeps(f.c.Resp.Deps)}
		for _, b := range f.c.Resp.Bundled {
			r.Bundled = append(r.Bundled, &pb.Requirements_NPM_Bundle{Path: "node_modules/" + strings.Join(b.Path, "/node_modules/"), Name: b.Name, Version: b.Version, Dependencies: pbDeps(b.Deps)})
		}
		return &pb.Requirements{Npm: r}, nil
	}
	for _, v := range fakeRegistry[name] {
		if v == ver {
			return &pb.Requirements{Npm: &pb.Requirements_NPM{Dependencies: &pb.Requirements_NPM_Dependencies{}}}, nil
		}
	}
	return nil, status.Error(codes.NotFound, "no such version")
}

func toAReqs(rs []resolve.RequirementVersion) []aReq {
	out := []aReq{}
	for _, r := range rs {
		k, _ := r.Type.GetAttr(dep.KnownAs)
		out = append(out, aReq{Name: r.Name, Req: r.Version, Kind: npmKind(r.Type), KnownAs: k})
	}
	return out
}

func versionsText(vs []resolve.Version) []string {
	out := []string{}
	for _, v := range vs {
		out = append(out, v.Version)
	}
	return out
}

func reqType(r aReq) dep.Type {
	var t dep.Type
	switch r.Kind {
	case "dev":
		t.AddAttr(dep.Dev, "")
	case "opt":
		t.AddAttr(dep.Opt, "")
	case "peer":
		t.AddAttr(dep.Scope, "peer")
	case "bundle":
		t.AddAttr(dep.Scope, "bundle")
	}
	if r.KnownAs != "" {
		t.AddAttr(dep.KnownAs, r.KnownAs)
	}
	return t
}

// modelClient loads the universe the SPEC derives from the response into an in-memory client.
func modelClient(c apiCase) *resolve.LocalClient {
	lc := resolve.NewLocalClient()
	mk := func(name, ver string, t resolve.VersionType) resolve.VersionKey {
		return resolve.VersionKey{PackageKey: resolve.PackageKey{System: resolve.NPM, Name: name}, VersionType: t, Version: ver}
	}
	reqs := func(rs []aReq) []resolve.RequirementVersion {
		var out []resolve.RequirementVersion
		for _, r := range rs {
			out = append(out, resolve.RequirementVersion{VersionKey: mk(r.Name, r.Req, resolve.Requirement), Type: reqType(r)})
		}
		return out
	}
	var names []string
	for n := range fakeRegistry {
		names = append(names, n)
	}
	sort.Strings(names)
	for _, n := range names {
		vs := fakeRegistry[n]
		for i, v := range vs {
			var as version.AttrSet
			if i == len(vs)-1 {
				as.SetAttr(version.Tags, "latest")
			}
			lc.AddVersion(resolve.Version{VersionKey: mk(n, v, resolve.Concrete), AttrSet: as}, nil)
		}
	}
	for _, b := range c.Bundled {
		var as version.AttrSet
		as.SetAttr(version.DerivedFrom, b.DerivedFrom)
		lc.AddVersion(resolve.Version{VersionKey: mk(b.Name, b.Version, resolve.Concrete), AttrSet: as}, reqs(b.Reqs))
	}
	var ras version.AttrSet
	ras.SetAttr(version.Tags, "latest")
	lc.AddVersion(resolve.Version{VersionKey: mk(c.Root.Name, c.Root.Version, resolve.Concrete), AttrSet: ras}, reqs(c.RootReqs))
	return lc
}

// cmdAPI: vh api <cases.ndjson> <obs.ndjson> <goroutines>
func cmdAPI(args []string) error {
	if len(args) < 3 {
		return fmt.Errorf("usage: api cases obs goroutines")
	}
	cases, err := readNDJSON[apiCase](args[0])
	if err != nil {
		return err
	}
	var ng int
	fmt.Sscan(args[2], &ng)
	w, err := newNDWriter(args[1])
	if err != nil {
		return err
	}
	defer w.Close()
	ctx := context.Background()
	for _, c := range cases {
		o := apiObs{Root: c.Root, Resp: c.Resp, RootReqs: []aReq{}, Bundled: []aBundledObs{}, Concurrent: []string{}}
		rootVK := resolve.VersionKey{PackageKey: resolve.PackageKey{System: resolve.NPM, Name: c.Root.Name}, VersionType: resolve.Concrete, Version: c.Root.Version}
		ac := resolve.NewAPIClient(&fakeInsights{c: c})
		rr, err := ac.Requirements(ctx, rootVK)
		if err != nil {
			return fmt.Errorf("Requirements(root): %v", err)
		}
		o.RootReqs = toAReqs(rr)
		for _, b := range c.Bundled {
			bo := aBundledObs{Name: b.Name, Versions: []string{}, Matching: []string{}, MatchingOther: []string{}, Reqs: []aReq{}}
			pk := resolve.PackageKey{System: resolve.NPM, Name: b.Name}
			vk := resolve.VersionKey{PackageKey: pk, VersionType: resolve.Concrete, Version: b.Version}
			if v, err := ac.Version(ctx, vk); err == nil {
				bo.VFound = true
				bo.VVersion = v.Version
				bo.DerivedFrom, _ = v.GetAttr(version.DerivedFrom)
			}
			if vs, err := ac.Versions(ctx, pk); err == nil {
				bo.Versions = versionsText(vs)
			}
			if vs, err := ac.MatchingVersions(ctx, resolve.VersionKey{PackageKey: pk, VersionType: resolve.Requirement, Version: b.Version}); err == nil {
				bo.Matching = versionsText(vs)
			}
			if vs, err := ac.MatchingVersions(ctx, resolve.VersionKey{PackageKey: pk, VersionType: resolve.Requirement, Version: b.Version + "1"}); err == nil {
				bo.MatchingOther = versionsText(vs)
			}
			if rs, err := ac.Requirements(ctx, vk); err == nil {
				bo.RFound = true
				bo.Reqs = toAReqs(rs)
			}
			o.Bundled = append(o.Bundled, bo)
		}
		// resolve through the API-backed client (fresh one, so that the bundle map is filled by the resolver itself)
		ac2 := resolve.NewAPIClient(&fakeInsights{c: c})
		g1, e1 := npm.NewResolver(ac2).Resolve(ctx, rootVK)
		o.APIDigest = graphDigest(g1, e1)
		g2, e2 := npm.NewResolver(modelClient(c)).Resolve(ctx, rootVK)
		o.LocalDigest = graphDigest(g2, e2)
		if ng > 0 {
			ac3 := resolve.NewAPIClient(&fakeInsights{c: c})
			res := npm.NewResolver(ac3)
			digs := make([]string, ng)
			var wg sync.WaitGroup
			for k := 0; k < ng; k++ {
				wg.Add(1)
				go func(k int) {
					defer wg.Done()
					g, err := res.Resolve(ctx, rootVK)
					digs[k] = graphDigest(g, err)
				}(k)
			}
			wg.Wait()
			o.Concurrent = digs
		}
		if err := w.Write(&o); err != nil {
			return err
		}
	}
	return nil
}
