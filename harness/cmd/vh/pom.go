package main

import (
	"encoding/xml"
	"fmt"
	"strings"
	"time"

	"deps.dev/util/maven"
)

func init() { commands["pom"] = cmdPom }

type tPart struct {
	K string `json:"k"`
	S string `json:"s"`
}
type tDep struct {
	G     string   `json:"g"`
	A     string   `json:"a"`
	V     []tPart  `json:"v"`
	Typ   string   `json:"typ"`
	Cls   string   `json:"cls"`
	Scope string   `json:"scope"`
	Opt   bool     `json:"opt"`
	Excl  []string `json:"excl"`
}
type tProp struct {
	N   string  `json:"n"`
	Val []tPart `json:"val"`
}
type tAct struct {
	Kind   string `json:"kind"`
	Text   string `json:"text"`
	Field  string `json:"field"`
	Val    string `json:"val"`
	Nums   []int  `json:"nums"`
	Lo     []int  `json:"lo"`
	Hi     []int  `json:"hi"`
	HiIncl bool   `json:"hiIncl"`
}
type tProfile struct {
	Act   tAct    `json:"act"`
	Props []tProp `json:"props"`
	Deps  []tDep  `json:"deps"`
	Mgmt  []tDep  `json:"mgmt"`
}
type tPom struct {
	G        string     `json:"g"`
	A        string     `json:"a"`
	V        string     `json:"v"`
	Parent   int        `json:"parent"`
	Props    []tProp    `json:"props"`
	Deps     []tDep     `json:"deps"`
	Mgmt     []tDep     `json:"mgmt"`
	Profiles []tProfile `json:"profiles"`
}
type oDep struct {
	G     string   `json:"g"`
	A     string   `json:"a"`
	V     string   `json:"v"`
	Typ   string   `json:"typ"`
	Cls   string   `json:"cls"`
	Scope string   `json:"scope"`
	Opt   bool     `json:"opt"`
	Excl  []string `json:"excl"`
}
type tQuery struct {
	Tpl      []tPart `json:"tpl"`
	Query    string  `json:"query"`
	Cyclic   bool    `json:"cyclic"`
	Result   string  `json:"result"`
	Resolved bool    `json:"resolved"`
}
type pomCase struct {
	Kind     string             `json:"kind"`
	Lineage  []tPom             `json:"lineage"`
	Boms     [][]tPom           `json:"boms"`
	InDomain bool               `json:"indomain"`
	Deps     []oDep             `json:"deps"`
	Mgmt     []oDep             `json:"mgmt"`
	Table    map[string][]tPart `json:"table"`
	Queries  []tQuery           `json:"queries"`
}
type qObs struct {
	Query string `json:"query"`
	Kept  bool   `json:"kept"`
	Value string `json:"value"`
}
type pomObs struct {
	Lineage    []tPom             `json:"lineage"`
	Boms       [][]tPom           `json:"boms"`
	Table      map[string][]tPart `json:"table"`
	Queries    [][]tPart          `json:"queries"`
	Kind       string             `json:"kind"`
	InDomain   bool               `json:"indomain"`
	Ok         bool               `json:"ok"`
	Err        string             `json:"err"`
	WantDeps   []oDep             `json:"wantdeps"`
	WantMgmt   []oDep             `json:"wantmgmt"`
	Deps       []oDep             `json:"deps"`
	Mgmt       []oDep             `json:"mgmt"`
	Terminated bool               `json:"terminated"`
	Want       []tQuery           `json:"want"`
	Got        []qObs             `json:"got"`
}

func tpl(ps []tPart) string {
	var b strings.Builder
	for _, p := range ps {
		if p.K == "lit" {
			b.WriteString(p.S)
		} else {
			b.WriteString("${" + p.S + "}")
		}
	}
	return b.String()
}

func esc(s string) string {
	var b strings.Builder
	xml.EscapeText(&b, []byte(s))
	return b.String()
}

func el(name, val string) string {
	if val == "" {
		return ""
	}
	return "<" + name + ">" + esc(val) + "</" + name + ">"
}

func depsXML(ds []tDep) string {
	var b strings.Builder
	for _, d := range ds {
		b.WriteString("<dependency>" + el("groupId", d.G) + el("artifactId", d.A) + el("version", tpl(d.V)) + el("type", d.Typ) + el("classifier", d.Cls) + el("scope", d.Scope))
		if d.Opt {
			b.WriteString("<optional>true</optional>")
		}
		if len(d.Excl) > 0 {
			b.WriteString("<exclusions>")
			for _, e := range d.Excl {
				ga := strings.SplitN(e, ":", 2)
				b.WriteString("<exclusion>" + el("groupId", ga[0]) + el("artifactId", ga[1]) + "</exclusion>")
			}
			b.WriteString("</exclusions>")
		}
		b.WriteString("</dependency>")
	}
	return b.String()
}

func propsXML(ps []tProp) string {
	if len(ps) == 0 {
		return ""
	}
	var b strings.Builder
	b.WriteString("<properties>")
	for _, p := range ps {
		b.WriteString("<" + p.N + ">" + esc(tpl(p.Val)) + "</" + p.N + ">")
	}
	b.WriteString("</properties>")
	return b.String()
}

// pomXML prints one POM of a lineage as pom.xml text.
func pomXML(lin []tPom, i int) string {
	p := lin[i]
	var b strings.Builder
	b.WriteString(`<?xml version="1.0" encoding="UTF-8"?><project xmlns="http://maven.apache.org/POM/4.0.0"><modelVersion>4.0.0</modelVersion>`)
	if p.Parent > 0 {
		pp := lin[p.Parent-1]
		b.WriteString("<parent>" + el("groupId", pp.G) + el("artifactId", pp.A) + el("version", pp.V) + "</parent>")
	}
	b.WriteString(el("groupId", p.G) + el("artifactId", p.A) + el("version", p.V))
	if i > 0 {
		b.WriteString("<packaging>pom</packaging>")
	}
	b.WriteString(propsXML(p.Props))
	if len(p.Mgmt) > 0 {
		b.WriteString("<dependencyManagement><dependencies>" + depsXML(p.Mgmt) + "</dependencies></dependencyManagement>")
	}
	if len(p.Deps) > 0 {
		b.WriteString("<dependencies>" + depsXML(p.Deps) + "</dependencies>")
	}
	if len(p.Profiles) > 0 {
		b.WriteString("<profiles>")
		for k, pr := range p.Profiles {
			b.WriteString(fmt.Sprintf("<profile><id>p%d</id><activation>", k))
			switch pr.Act.Kind {
			case "default":
				b.WriteString("<activeByDefault>true</activeByDefault>")
			case "jdk", "jdkrange":
				b.WriteString(el("jdk", pr.Act.Text))
			case "os":
				b.WriteString("<os>" + el(pr.Act.Field, pr.Act.Val) + "</os>")
			}
			b.WriteString("</activation>" + propsXML(pr.Props))
			if len(pr.Mgmt) > 0 {
				b.WriteString("<dependencyManagement><dependencies>" + depsXML(pr.Mgmt) + "</dependencies></dependencyManagement>")
			}
			if len(pr.Deps) > 0 {
				b.WriteString("<dependencies>" + depsXML(pr.Deps) + "</dependencies>")
			}
			b.WriteString("</profile>")
		}
		b.WriteString("</profiles>")
	}
	b.WriteString("</project>")
	return b.String()
}

// effective runs the documented pipeline on a lineage (project first): decode, activate profiles, merge
// ancestors, interpolate.
func effective(lin []tPom) (maven.Project, error) {
	var result maven.Project
	i := 0
	for n := 0; n < 10; n++ {
		var proj maven.Project
		if err := xml.Unmarshal([]byte(pomXML(lin, i)), &proj); err != nil {
			return result, fmt.Errorf("decode: %w", err)
		}
		if err := proj.MergeProfiles(maven.JDKProfileActivation, maven.OSProfileActivation); err != nil {
			return result, fmt.Errorf("profiles: %w", err)
		}
		if n == 0 {
			result = proj
		} else {
			result.MergeParent(proj)
		}
		if lin[i].Parent == 0 {
			break
		}
		i = lin[i].Parent - 1
	}
	return result, result.Interpolate()
}

func outDeps(ds []maven.Dependency) []oDep {
	out := []oDep{}
	for _, d := range ds {
		o := oDep{G: string(d.GroupID), A: string(d.ArtifactID), V: string(d.Version), Typ: string(d.Type), Cls: string(d.Classifier), Scope: string(d.Scope), Opt: d.Optional.Boolean(), Excl: []string{}}
		for _, e := range d.Exclusions {
			o.Excl = append(o.Excl, string(e.GroupID)+":"+string(e.ArtifactID))
		}
		out = append(out, o)
	}
	return out
}

func cmdPom(args []string) error {
	if len(args) < 2 {
		return fmt.Errorf("usage: pom cases obs")
	}
	cases, err := readNDJSON[pomCase](args[0])
	if err != nil {
		return err
	}
	w, err := newNDWriter(args[1])
	if err != nil {
		return err
	}
	defer w.Close()
	for _, c := range cases {
		o := pomObs{Lineage: c.Lineage, Boms: c.Boms, Table: c.Table, Queries: [][]tPart{}, Kind: c.Kind, InDomain: c.InDomain, WantDeps: c.Deps, WantMgmt: c.Mgmt, Deps: []oDep{}, Mgmt: []oDep{}, Want: c.Queries, Got: []qObs{}}
		if o.WantDeps == nil {
			o.WantDeps = []oDep{}
		}
		if o.WantMgmt == nil {
			o.WantMgmt = []oDep{}
		}
		if o.Want == nil {
			o.Want = []tQuery{}
		}
		if o.Lineage == nil {
			o.Lineage = []tPom{}
		}
		if o.Boms == nil {
			o.Boms = [][]tPom{}
		}
		if o.Table == nil {
			o.Table = map[string][]tPart{"a": {}, "b": {}, "c": {}}
		}
		for _, q := range c.Queries {
			o.Queries = append(o.Queries, q.Tpl)
		}
		if c.Kind == "lineage" {
			done := make(chan struct{})
			go func() {
				defer close(done)
				defer func() {
					if r := recover(); r != nil {
						o.Err = fmt.Sprint("panic: ", r)
					}
				}()
				proj, err := effective(c.Lineage)
				if err != nil {
					o.Err = err.Error()
					return
				}
				proj.ProcessDependencies(func(g, a, v maven.String) (maven.DependencyManagement, error) {
					for _, b := range c.Boms {
						if b[0].G == string(g) && b[0].A == string(a) && b[0].V == string(v) {
							bp, err := effective(b)
							if err != nil {
								return maven.DependencyManagement{}, err
							}
							return bp.DependencyManagement, nil
						}
					}
					return maven.DependencyManagement{}, fmt.Errorf("no such BOM")
				})
				o.Ok = true
				o.Deps = outDeps(proj.Dependencies)
				o.Mgmt = outDeps(proj.DependencyManagement.Dependencies)
			}()
			select {
			case <-done:
				o.Terminated = true
			case <-time.After(10 * time.Second):
				o.Err = "watchdog: pipeline did not terminate within 10 s"
			}
		} else {
			// interpolation of every query against the table, observed through Project.Interpolate: each query is the
			// version of its own dependency
			var proj maven.Project
			proj.GroupID, proj.ArtifactID, proj.Version = "tg", "ta", "1"
			for _, n := range []string{"a", "b", "c"} {
				proj.Properties.Properties = append(proj.Properties.Properties, maven.Property{Name: n, Value: tpl(c.Table[n])})
			}
			for k, q := range c.Queries {
				proj.Dependencies = append(proj.Dependencies, maven.Dependency{GroupID: "q", ArtifactID: maven.String(fmt.Sprintf("q%d", k)), Version: maven.String(q.Query)})
			}
			done := make(chan struct{})
			go func() {
				defer close(done)
				defer func() {
					if r := recover(); r != nil {
						o.Err = fmt.Sprint("panic: ", r)
					}
				}()
				if err := proj.Interpolate(); err != nil {
					o.Err = err.Error()
				}
				o.Ok = o.Err == ""
			}()
			select {
			case <-done:
				o.Terminated = true
				for k, q := range c.Queries {
					g := qObs{Query: q.Query}
					for _, d := range proj.Dependencies {
						if string(d.ArtifactID) == fmt.Sprintf("q%d", k) {
							g.Kept = true
							g.Value = string(d.Version)
						}
					}
					o.Got = append(o.Got, g)
				}
			case <-time.After(10 * time.Second):
				o.Err = "watchdog: Interpolate did not terminate within 10 s"
			}
		}
		if err := w.Write(&o); err != nil {
			return err
		}
	}
	return nil
}
