package main

import (
	"bufio"
	"context"
	"encoding/json"
	"encoding/xml"
	"fmt"
	"math/rand"
	"os"
	"sort"
	"strconv"
	"strings"
	"time"

	"deps.dev/util/maven"
	pypiutil "deps.dev/util/pypi"
	"deps.dev/util/resolve"
	"deps.dev/util/resolve/dep"
	mavenres "deps.dev/util/resolve/maven"
	npmres "deps.dev/util/resolve/npm"
	pypires "deps.dev/util/resolve/pypi"
	"deps.dev/util/resolve/schema"
)

func init() { commands["total"] = cmdTotal; commands["total1"] = cmdTotal1 }

var alphabet = []string{"0", "1", "9", "a", "x", "v", "A", ".", "-", "+", "_", "^", "~", ">", "<", "=", "!", "*", "|", ",", " ",
	"[", "]", "(", ")", ":", ";", "\"", "'", "@", "$", "{", "∞", "\xff",
	// keyword tokens (Totality!KWords): indices 35..84
	"${env.HOME}", "${settings.localRepository}", "${project.version}", "${pom.groupId}", "${project.parent.version}", "${undefined}", "${p1}", "${p2}", "${", "}",
	"-SNAPSHOT", "alpha", "rc", ".final", ".dev1", ".post2", "1.2.3", "1.0", "latest", "2!",
	" and ", " or ", "not ", " in ", "extra", "python_version", "sys_platform", "os_name", "==", ">=",
	"~=", "!=", "===", "<=", "||", " - ", "~>", "^", "*", ".x",
	"\n", "\t", "ERROR: ", "ATTR: ", "|", "dev|", "$l@", "l: ", "import", ".whl"}

// wordRec is one TLC-enumerated input: kind "word" (W = alphabet indices) or "text" (W = [line kind, depth] pairs).
type wordRec struct {
	Kind string            `json:"kind"`
	W    []json.RawMessage `json:"w"`
}

// resolveLines / schemaLines: the line templates of the two text formats, indexed by line kind - 1.
var resolveLines = []string{"a@1 1.0", "l: b@^1 1.0", "$l@1", "$m@1", "l: c@2 2.0", "a@1 ERROR: boom", "ERROR: top", "dev|d@1 1.0", "# c", "root 1.0"}
var schemaLines = []string{"pkg", "1.0.0", "dep@^1", "ATTR: Tags latest", "dev|dep@1", "opt KnownAs x|other@1", "2.0.0-rc.1", "@scope/pkg", "ATTR: Registries dep:x", "# c"}

func (wr wordRec) render() (word string, rtext string, stext string, err error) {
	var b, c strings.Builder
	for _, raw := range wr.W {
		if wr.Kind == "text" {
			var kd [2]int
			if err := json.Unmarshal(raw, &kd); err != nil {
				return "", "", "", err
			}
			tabs := strings.Repeat("\t", kd[1])
			b.WriteString(tabs + resolveLines[kd[0]-1] + "\n")
			c.WriteString(tabs + schemaLines[kd[0]-1] + "\n")
			continue
		}
		var k int
		if err := json.Unmarshal(raw, &k); err != nil {
			return "", "", "", err
		}
		b.WriteString(alphabet[k-1])
	}
	if wr.Kind == "text" {
		return "", b.String(), c.String(), nil
	}
	return b.String(), "", "", nil
}

// forEachInput streams the (possibly CSVWrite-quoted) ndjson file, keeping the lines of this shard (VERIF_SHARD=k/n).
func forEachInput(path string, f func(i int, wr wordRec) error) error {
	shard, nshards := 0, 1
	if v := os.Getenv("VERIF_SHARD"); v != "" {
		fmt.Sscanf(v, "%d/%d", &shard, &nshards)
	}
	fh, err := os.Open(path)
	if err != nil {
		return err
	}
	defer fh.Close()
	sc := bufio.NewScanner(fh)
	sc.Buffer(make([]byte, 1<<16), 1<<24)
	for i := 0; sc.Scan(); i++ {
		b := sc.Bytes()
		if len(b) == 0 || i%nshards != shard {
			continue
		}
		if b[0] == '"' {
			var s string
			if err := json.Unmarshal(b, &s); err != nil {
				return err
			}
			b = []byte(s)
		}
		var wr wordRec
		if err := json.Unmarshal(b, &wr); err != nil {
			return fmt.Errorf("%s:%d: %v", path, i+1, err)
		}
		if err := f(i, wr); err != nil {
			return err
		}
	}
	return sc.Err()
}

type outcomeRec struct {
	Outcome string `json:"outcome"`
	Count   int    `json:"count"`
	Witness string `json:"witness"` // first input with this outcome (Go-quoted)
}
type totalObs struct {
	Entry     string       `json:"entry"`
	Sys       string       `json:"sys"`
	Calls     int          `json:"calls"`
	Abandoned int          `json:"abandoned"` // deep phase only: calls given up on after abandonAfter (no verdict: sizes there are beyond what polynomial code finishes)
	Slow      int          `json:"slow"`      // calls that returned, but only after the soft limit
	MaxMs     int64        `json:"maxms"`     // slowest returning call
	MaxLen    int          `json:"maxlen"`    // longest input
	Outcomes  []outcomeRec `json:"outcomes"`
	Skipped   int          `json:"skipped"` // calls not made after this entry point failed to return once (its goroutine is still spinning)
	dead      bool
}

const (
	softLimit = 5 * time.Second
	hardLimit = 90 * time.Second
)

type tally struct {
	m            map[string]*totalObs
	order        []string
	prog         *os.File
	abandonAfter time.Duration
}

// brief renders an input for logs: quoted in full when short, otherwise its head and length.
func brief(input string) string {
	if len(input) <= 4096 {
		return fmt.Sprintf("%q", input)
	}
	return fmt.Sprintf("%q...(%d bytes)", input[:96], len(input))
}

// call runs f under recover and a watchdog and books the outcome under (entry, sys).
func (t *tally) call(entry, sys, input string, f func() error) {
	key := entry + "|" + sys
	o := t.m[key]
	if o == nil {
		o = &totalObs{Entry: entry, Sys: sys}
		t.m[key] = o
		t.order = append(t.order, key)
	}
	if o.dead {
		o.Skipped++
		return
	}
	if t.prog != nil {
		t.prog.Truncate(0)
		t.prog.Seek(0, 0)
		fmt.Fprintf(t.prog, "%s|%s|%s\n", entry, sys, brief(input))
	}
	done := make(chan string, 1)
	go func() {
		defer func() {
			if r := recover(); r != nil {
				done <- fmt.Sprintf("panicked: %.80v", r)
			}
		}()
		if err := f(); err != nil {
			done <- "error"
		} else {
			done <- "value"
		}
	}()
	var out string
	t0 := time.Now()
	if t.abandonAfter > 0 {
		select {
		case out = <-done:
		case <-time.After(t.abandonAfter):
			o.Abandoned++
			return
		}
	} else {
		out = wait(done, o)
	}
	if ms := time.Since(t0).Milliseconds(); ms > o.MaxMs {
		o.MaxMs = ms
	}
	if len(input) > o.MaxLen {
		o.MaxLen = len(input)
	}
	o.Calls++
	for i := range o.Outcomes {
		if o.Outcomes[i].Outcome == out {
			o.Outcomes[i].Count++
			return
		}
	}
	o.Outcomes = append(o.Outcomes, outcomeRec{Outcome: out, Count: 1, Witness: brief(input)})
	if strings.HasPrefix(out, "did not return") {
		o.dead = true
	}
}

func wait(done chan string, o *totalObs) (out string) {
	select {
	case out = <-done:
	case <-time.After(softLimit):
		// Not a verdict yet: keep waiting for the same call, so that a slow but terminating call is told
		// apart from one that does not return (and no abandoned goroutine competes with later calls).
		o.Slow++
		select {
		case out = <-done:
		case <-time.After(hardLimit - softLimit):
			out = fmt.Sprintf("did not return within %v", hardLimit)
		}
	}
	return out
}

var semverSystems = []string{"Default", "Cargo", "Go", "Maven", "NPM", "NuGet", "PyPI", "RubyGems", "Composer"}

func (t *tally) semverCalls(w string) {
	for _, sn := range semverSystems {
		sys := sysByName[sn]
		t.call("semver.Parse", sn, w, func() error {
			v, err := sys.Parse(w)
			if err == nil {
				_ = v.Canon(true)
				_ = v.String()
				_ = v.IsPrerelease()
			}
			return err
		})
		t.call("semver.ParseConstraint+Match", sn, w, func() error {
			c, err := sys.ParseConstraint(w)
			if err != nil {
				return err
			}
			_ = c.Match("1.0.0")
			_ = c.Match(w)
			s := c.Set()
			_ = s.Empty()
			txt := s.String()
			if c2, err := sys.ParseSetConstraint(txt); err == nil {
				_ = c2.Match("1.2.3")
			}
			_ = c.IsSimple()
			_ = c.HasPrerelease()
			return nil
		})
		t.call("semver.ParseSetConstraint", sn, w, func() error {
			c, err := sys.ParseSetConstraint("{" + w + "}")
			if err == nil {
				_ = c.Match("1.0.0")
			}
			_, err2 := sys.ParseSetConstraint(w)
			if err != nil {
				return err
			}
			return err2
		})
		t.call("semver.Compare+Difference", sn, w, func() error {
			_ = sys.Compare(w, "1.2.3")
			_ = sys.Compare("1.2.3", w)
			_ = sys.Compare(w, w)
			_, _, err := sys.Difference(w, "1.2.3")
			_, _, _ = sys.Difference("1.2.3", w)
			return err
		})
	}
}

func (t *tally) pypiCalls(w string) {
	ctx := context.Background()
	t.call("pypi.ParseDependency", "", w, func() error { _, err := pypiutil.ParseDependency(w); return err })
	t.call("pypi.ParseMetadata", "", w, func() error {
		_, err := pypiutil.ParseMetadata(ctx, w)
		_, _ = pypiutil.ParseMetadata(ctx, "Metadata-Version: 2.1\nName: x\nVersion: "+w+"\nRequires-Dist: "+w+"\n\n"+w)
		return err
	})
	t.call("pypi.ParseWheelName", "", w, func() error {
		_, err := pypiutil.ParseWheelName(w)
		_, _ = pypiutil.ParseWheelName(w + "-1.0-py3-none-any.whl")
		// The compatibility tags expand to the cross product of their dotted parts (as in pip); putting one long
		// dotted token into all three is cubic in memory by design, so it goes into all three only when short.
		if strings.Count(w, ".") <= 60 {
			_, _ = pypiutil.ParseWheelName("x-" + w + "-" + w + "-" + w + "-" + w + ".whl")
		} else {
			_, _ = pypiutil.ParseWheelName("x-" + w + "-" + w + "-none-any.whl")
		}
		return err
	})
	t.call("pypi.SdistVersion", "", w, func() error {
		_, _, err := pypiutil.SdistVersion("x", w)
		_, _, _ = pypiutil.SdistVersion(pypiutil.CanonPackageName(w), w+"-1.0.tar.gz")
		_, _, _ = pypiutil.SdistVersion("x", "x-"+w+".zip")
		return err
	})
	t.call("pypi.CanonVersion+CanonPackageName", "", w, func() error { _ = pypiutil.CanonVersion(w); _ = pypiutil.CanonPackageName(w); return nil })
}

func (t *tally) mavenCalls(w string) {
	var b strings.Builder
	xml.EscapeText(&b, []byte(w))
	e := b.String()
	doc := `<project><groupId>g</groupId><artifactId>a</artifactId><version>` + e + `</version><parent><groupId>` + e + `</groupId><artifactId>p</artifactId><version>` + e + `</version></parent>` +
		`<properties><p1>` + e + `</p1><p2>${p1}` + e + `${p2}</p2></properties>` +
		`<dependencyManagement><dependencies><dependency><groupId>g</groupId><artifactId>m</artifactId><version>` + e + `</version><scope>import</scope><type>pom</type></dependency></dependencies></dependencyManagement>` +
		`<dependencies><dependency><groupId>` + e + `</groupId><artifactId>d</artifactId><version>${p2}` + e + `</version><optional>` + e + `</optional></dependency></dependencies>` +
		`<profiles><profile><id>x</id><activation><jdk>` + e + `</jdk><os><name>` + e + `</name></os></activation><properties><p1>` + e + `</p1></properties></profile></profiles></project>`
	t.call("maven.Project pipeline", "", w, func() error {
		var p maven.Project
		if err := xml.Unmarshal([]byte(doc), &p); err != nil {
			return err
		}
		err := p.MergeProfiles(maven.JDKProfileActivation, maven.OSProfileActivation)
		_ = p.MergeProfiles(w, maven.ActivationOS{Name: maven.String(w)})
		parent := p
		p.MergeParent(parent)
		if e2 := p.Interpolate(); e2 != nil && err == nil {
			err = e2
		}
		p.ProcessDependencies(func(g, a, v maven.String) (maven.DependencyManagement, error) {
			return maven.DependencyManagement{Dependencies: []maven.Dependency{{GroupID: "g", ArtifactID: "m", Version: v, Type: "pom", Scope: "import"}}}, nil
		})
		return err
	})
	t.call("maven xml.Unmarshal raw", "", w, func() error { var p maven.Project; return xml.Unmarshal([]byte(w), &p) })
	t.call("maven.MakeProjectKey", "", w, func() error { _, err := maven.MakeProjectKey(w, w); return err })
}

func (t *tally) schemaCalls(w string) {
	for _, sn := range []string{"NPM", "Maven", "PyPI"} {
		sys := rsysByName[sn]
		t.call("schema.New", sn, w, func() error {
			_, err := schema.New(w, sys)
			_, _ = schema.New("pkg\n\t"+w+"\n\t\tdep@"+w+"\n\t\tATTR: "+w+"\n", sys)
			_, _ = schema.New(w+"\n\t1.0.0\n\t\t"+w+"|other@1\n", sys)
			return err
		})
		t.call("schema.ParseResolve", sn, w, func() error {
			_, err := schema.ParseResolve(w, sys)
			_, _ = schema.ParseResolve("root 1.0.0\n\t"+w+"\n", sys)
			_, _ = schema.ParseResolve("root 1.0.0\n\t"+w+"|a@1 1.0.0\n\t\t$1@"+w+"\n", sys)
			return err
		})
	}
}

// textCalls feeds one grammar-derived text to the parsers of the two line-oriented formats.
func (t *tally) textCalls(rtext, stext string) {
	for _, sn := range []string{"NPM", "Maven", "PyPI"} {
		sys := rsysByName[sn]
		t.call("schema.ParseResolve text", sn, rtext, func() error {
			g, err := schema.ParseResolve(rtext, sys)
			if err == nil && g != nil {
				_ = g.String()
				_ = g.Canon()
			}
			return err
		})
		t.call("schema.New text", sn, stext, func() error {
			s, err := schema.New(stext, sys)
			if err == nil && s != nil {
				c := s.NewClient()
				_ = s.ValidateClient(c)
			}
			return err
		})
	}
}

func (t *tally) resolverCalls(w string) {
	ctx := context.Background()
	mk := func(sys resolve.System, n, v string, vt resolve.VersionType) resolve.VersionKey {
		return resolve.VersionKey{PackageKey: resolve.PackageKey{System: sys, Name: n}, VersionType: vt, Version: v}
	}
	build := func(sys resolve.System, names [2]string, vers []string, marker bool) *resolve.LocalClient {
		lc := resolve.NewLocalClient()
		for _, v := range vers {
			lc.AddVersion(resolve.Version{VersionKey: mk(sys, names[1], v, resolve.Concrete)}, nil)
		}
		var ty dep.Type
		if marker {
			ty.AddAttr(dep.Environment, w)
		}
		var ty2 dep.Type
		ty2.AddAttr(dep.KnownAs, w)
		ty2.AddAttr(dep.Scope, w)
		ty2.AddAttr(dep.MavenExclusions, w)
		lc.AddVersion(resolve.Version{VersionKey: mk(sys, names[0], vers[0], resolve.Concrete)}, []resolve.RequirementVersion{
			{VersionKey: mk(sys, names[1], w, resolve.Requirement), Type: ty},
			{VersionKey: mk(sys, names[1], vers[0], resolve.Requirement), Type: ty2}})
		return lc
	}
	// deep: the input is also a package NAME, required two levels below the root by a version reached over an edge
	// that carries exclusions / extras / an alias (root -> mid [attrs] -> <w>@<w>).
	deep := func(sys resolve.System, root, mid string) *resolve.LocalClient {
		lc := resolve.NewLocalClient()
		var ty dep.Type
		ty.AddAttr(dep.MavenExclusions, "g:zzz|*:q")
		ty.AddAttr(dep.EnabledDependencies, "x")
		ty.AddAttr(dep.KnownAs, "al")
		lc.AddVersion(resolve.Version{VersionKey: mk(sys, w, "1.0", resolve.Concrete)}, nil)
		lc.AddVersion(resolve.Version{VersionKey: mk(sys, mid, "1.0", resolve.Concrete)}, []resolve.RequirementVersion{
			{VersionKey: mk(sys, w, "1.0", resolve.Requirement)}, {VersionKey: mk(sys, w, w, resolve.Requirement)}})
		lc.AddVersion(resolve.Version{VersionKey: mk(sys, root, "1.0", resolve.Concrete)}, []resolve.RequirementVersion{
			{VersionKey: mk(sys, mid, "1.0", resolve.Requirement), Type: ty}})
		return lc
	}
	t.call("npm.Resolve names", "NPM", w, func() error {
		_, err := npmres.NewResolver(deep(resolve.NPM, "root", "mid")).Resolve(ctx, mk(resolve.NPM, "root", "1.0", resolve.Concrete))
		return err
	})
	t.call("maven.Resolve names", "Maven", w, func() error {
		_, err := mavenres.NewResolver(deep(resolve.Maven, "g:root", "g:mid")).Resolve(ctx, mk(resolve.Maven, "g:root", "1.0", resolve.Concrete))
		return err
	})
	t.call("pypi.Resolve names", "PyPI", w, func() error {
		_, err := pypires.NewResolver(deep(resolve.PyPI, "root", "mid")).Resolve(ctx, mk(resolve.PyPI, "root", "1.0", resolve.Concrete))
		return err
	})
	t.call("npm.Resolve", "NPM", w, func() error {
		lc := build(resolve.NPM, [2]string{"root", "dep"}, []string{"1.0.0", "2.0.0-rc.1", w}, false)
		_, err := npmres.NewResolver(lc).Resolve(ctx, mk(resolve.NPM, "root", "1.0.0", resolve.Concrete))
		return err
	})
	t.call("maven.Resolve", "Maven", w, func() error {
		lc := build(resolve.Maven, [2]string{"g:root", "g:dep"}, []string{"1.0", "2.0", w}, false)
		_, err := mavenres.NewResolver(lc).Resolve(ctx, mk(resolve.Maven, "g:root", "1.0", resolve.Concrete))
		return err
	})
	t.call("pypi.Resolve", "PyPI", w, func() error {
		lc := build(resolve.PyPI, [2]string{"root", "dep"}, []string{"1.0", "2.0a1", w}, false)
		_, err := pypires.NewResolver(lc).Resolve(ctx, mk(resolve.PyPI, "root", "1.0", resolve.Concrete))
		lc2 := build(resolve.PyPI, [2]string{"root", "dep"}, []string{"1.0"}, true)
		_, err2 := pypires.NewResolver(lc2).Resolve(ctx, mk(resolve.PyPI, "root", "1.0", resolve.Concrete))
		if err == nil {
			err = err2
		}
		return err
	})
}

// deepCalls feeds inputs nested or chained millions of levels deep to every entry point: a recursive parser without a
// depth bound overflows the goroutine stack on these, which kills the process (the driver reads the progress file).
func (t *tally) deepCalls() {
	leaf := `os_name == "x"`
	for _, n := range []int{100000, 4000000} {
		shapes := []string{
			strings.Repeat("(", n) + leaf + strings.Repeat(")", n),
			strings.Repeat("(", n),
			strings.Repeat("[", n) + "1.0" + strings.Repeat("]", n),
			strings.Repeat("{", n) + "1.0" + strings.Repeat("}", n),
			strings.Repeat("${", n) + "a" + strings.Repeat("}", n),
			strings.Repeat("<a>", n) + strings.Repeat("</a>", n),
			strings.Repeat("\t", n) + "a@1",
			strings.Repeat("1.", n) + "0",
			strings.Repeat("1-", n) + "0",
			strings.Repeat(">=1 ", n),
			strings.Repeat("1 || ", n) + "1",
			strings.Repeat("[1,2],", n) + "[3,4]",
		}
		chains := []string{
			strings.Repeat(leaf+" and ", n/4) + leaf,
			strings.Repeat(leaf+" or ", n/4) + leaf,
			strings.Repeat("("+leaf+") and ", n/4) + leaf,
			strings.Repeat("not ", n) + leaf,
		}
		for _, w := range shapes {
			t.semverCalls(w)
			t.pypiCalls(w)
			t.mavenCalls(w)
			t.schemaCalls(w)
		}
		for _, w := range append(shapes[:2:2], chains...) {
			t.call("pypi.ParseDependency", "", w, func() error { _, err := pypiutil.ParseDependency("x ; " + w); return err })
			t.markerCall(w)
		}
	}
}

// markerCall resolves root -> dep with the environment marker w on the edge.
func (t *tally) markerCall(w string) {
	ctx := context.Background()
	t.call("pypi.Resolve marker", "PyPI", w, func() error {
		lc := resolve.NewLocalClient()
		dk := resolve.VersionKey{PackageKey: resolve.PackageKey{System: resolve.PyPI, Name: "dep"}, VersionType: resolve.Concrete, Version: "1.0"}
		rk := resolve.VersionKey{PackageKey: resolve.PackageKey{System: resolve.PyPI, Name: "root"}, VersionType: resolve.Concrete, Version: "1.0"}
		lc.AddVersion(resolve.Version{VersionKey: dk}, nil)
		var ty dep.Type
		ty.AddAttr(dep.Environment, w)
		req := dk
		req.VersionType, req.Version = resolve.Requirement, ">=1"
		lc.AddVersion(resolve.Version{VersionKey: rk}, []resolve.RequirementVersion{{VersionKey: req, Type: ty}})
		_, err := pypires.NewResolver(lc).Resolve(ctx, rk)
		return err
	})
}

var validSeeds = []string{"1.2.3", "v1.2.3-alpha.1+build.5", "1.0.0a1.post2.dev3+local.1", "1.0-alpha-1-SNAPSHOT", "2!1.0", ">=1.2.3 <2.0.0 || ^3.0.0", "1.2.x - 2", "~>1.2, !=1.2.5",
	"[1.0,2.0),[3.0,)", "{[1.2.3:2.∞.∞],(3.0.0:4.0.0)}", "(,1.0]", "name[extra1, extra2] (>=1.0,!=1.5) ; python_version >= \"3.6\" and (os_name == 'posix' or extra == 'x')",
	"pkg-1.0-py3-none-any.whl", "pkg-1.0.tar.gz", "${a}${b}x${project.version}", "g:a", "root 1.0.0\n\tdev|a@^1.0.0 1.2.0\n\t\t$1@*\n", "pkg\n\t1.0.0\n\t\tATTR: Tags latest\n\t\tdep@^1\n"}

// mutate applies one mutation; kinds 4..6 (long token, deep nesting, long list) are used only when long is true.
func mutate(rng *rand.Rand, s string, long bool) string {
	b := []byte(s)
	extras := []string{"\x00", "\x7f", "é", "\xff\xfe", "∞", "((((", "))))", "[[[[", "${", "}", "\n\t", "||", ",,", "  "}
	kind := rng.Intn(8)
	if !long && kind >= 4 && kind <= 6 {
		kind = rng.Intn(4)
	}
	switch kind {
	case 0:
		if len(b) > 0 {
			i := rng.Intn(len(b))
			b = append(b[:i], b[i+1:]...)
		}
	case 1:
		if len(b) > 0 {
			i := rng.Intn(len(b))
			b = append(b[:i+1], b[i:]...)
		}
	case 2:
		if len(b) > 1 {
			i := rng.Intn(len(b) - 1)
			b[i], b[i+1] = b[i+1], b[i]
		}
	case 3:
		i := rng.Intn(len(b) + 1)
		b = append(b[:i], append([]byte(extras[rng.Intn(len(extras))]), b[i:]...)...)
	case 4: // very long token
		i := rng.Intn(len(b) + 1)
		tok := alphabet[rng.Intn(len(alphabet))]
		// up to 5000 BYTES whatever the token's length (keyword tokens are up to 28 bytes long)
		b = append(b[:i], append([]byte(strings.Repeat(tok, 1+rng.Intn(5000)/len(tok))), b[i:]...)...)
	case 5: // deep nesting
		n := 1 + rng.Intn(3000)
		open, close := "(", ")"
		if rng.Intn(2) == 0 {
			open, close = "[", "]"
		}
		b = []byte(strings.Repeat(open, n) + string(b) + strings.Repeat(close, n))
	case 6: // repeat the whole token list
		b = []byte(strings.Repeat(string(b)+[]string{" ", ",", " || ", " and ", "."}[rng.Intn(5)], 1+rng.Intn(400)))
	case 7:
		if len(b) > 0 {
			b[rng.Intn(len(b))] = byte(rng.Intn(256))
		}
	}
	return string(b)
}

// cmdTotal: vh total <words.ndjson> <obs.ndjson> <seed> <nmutations> <progressfile>
func cmdTotal(args []string) error {
	if len(args) < 5 {
		return fmt.Errorf("usage: total words obs seed nmut progress")
	}
	var seed int64
	var nmut int
	fmt.Sscan(args[2], &seed)
	fmt.Sscan(args[3], &nmut)
	prog, err := os.Create(args[4])
	if err != nil {
		return err
	}
	defer prog.Close()
	t := &tally{m: map[string]*totalObs{}, prog: prog}
	run := func(w string, heavy bool) {
		t.semverCalls(w)
		t.pypiCalls(w)
		t.mavenCalls(w)
		if heavy {
			t.schemaCalls(w)
			t.resolverCalls(w)
		}
	}
	nin := 0
	if err := forEachInput(args[0], func(i int, wr wordRec) error {
		w, rtext, stext, err := wr.render()
		if err != nil {
			return err
		}
		nin++
		if wr.Kind == "text" {
			t.textCalls(rtext, stext)
			return nil
		}
		// schema and resolver entry points on every 7th enumerated word (they are two orders of magnitude slower)
		run(w, nin%7 == 0)
		return nil
	}); err != nil {
		return err
	}
	rng := rand.New(rand.NewSource(seed))
	for i := 0; i < nmut; i++ {
		s := validSeeds[rng.Intn(len(validSeeds))]
		// at most one size-increasing mutation per input: sizes stay below ~40 KB, where every entry point's
		// measured time is far below the soft limit (two compounding ones reach megabytes, where merely
		// polynomial code looks like a hang)
		k, longAt := 1+rng.Intn(3), rng.Intn(3)
		for j := 0; j < k; j++ {
			s = mutate(rng, s, j == longAt)
		}
		run(s, true)
	}
	if len(args) > 5 && args[5] == "deep" {
		t.abandonAfter = 10 * time.Second
		t.deepCalls()
	}
	w, err := newNDWriter(args[1])
	if err != nil {
		return err
	}
	defer w.Close()
	sort.Strings(t.order)
	for _, k := range t.order {
		if err := w.Write(t.m[k]); err != nil {
			return err
		}
	}
	return nil
}

// cmdTotal1: vh total1 <obs.ndjson> <go-quoted input>: every entry point on one input (replay of a recorded witness).
func cmdTotal1(args []string) error {
	if len(args) < 2 {
		return fmt.Errorf("usage: total1 obs quoted-input")
	}
	in, err := strconv.Unquote(args[1])
	if err != nil {
		return fmt.Errorf("witness %s: %v", args[1], err)
	}
	t := &tally{m: map[string]*totalObs{}}
	t.semverCalls(in)
	t.pypiCalls(in)
	t.mavenCalls(in)
	t.schemaCalls(in)
	t.resolverCalls(in)
	t.markerCall(in)
	t.textCalls(in, in)
	w, err := newNDWriter(args[0])
	if err != nil {
		return err
	}
	defer w.Close()
	sort.Strings(t.order)
	for _, k := range t.order {
		if err := w.Write(t.m[k]); err != nil {
			return err
		}
	}
	return nil
}
