// Command vh is the Go side of the /verif conformance checks: it replays TLC-generated
// cases into the real deps.dev code and records observations (ndjson) that TLC validates
// against the TLA+ specification.
package main

import (
	"bufio"
	"encoding/json"
	"errors"
	"fmt"
	"os"
	"time"

	"deps.dev/util/resolve"
)

var commands = map[string]func(args []string) error{}

func main() {
	if len(os.Args) < 2 {
		fmt.Fprintln(os.Stderr, "usage: vh <command> args...")
		os.Exit(2)
	}
	f, ok := commands[os.Args[1]]
	if !ok {
		fmt.Fprintf(os.Stderr, "unknown command %q\n", os.Args[1])
		os.Exit(2)
	}
	if err := f(os.Args[2:]); err != nil {
		fmt.Fprintln(os.Stderr, "vh:", err)
		os.Exit(2)
	}
}

// readNDJSON reads one JSON value per line into out (pointer to slice of T).
func readNDJSON[T any](path string) ([]T, error) {
	f, err := os.Open(path)
	if err != nil {
		return nil, err
	}
	defer f.Close()
	var out []T
	sc := bufio.NewScanner(f)
	sc.Buffer(make([]byte, 1<<20), 1<<28)
	for sc.Scan() {
		b := sc.Bytes()
		if len(b) == 0 {
			continue
		}
		// CSVWrite lines are JSON string literals containing JSON.
		if b[0] == '"' {
			var s string
			if err := json.Unmarshal(b, &s); err != nil {
				return nil, err
			}
			b = []byte(s)
		}
		var v T
		if err := json.Unmarshal(b, &v); err != nil {
			return nil, fmt.Errorf("%s: %v: %s", path, err, string(b[:min(len(b), 200)]))
		}
		out = append(out, v)
	}
	return out, sc.Err()
}

type ndWriter struct {
	f *os.File
	w *bufio.Writer
	e *json.Encoder
}

func newNDWriter(path string) (*ndWriter, error) {
	f, err := os.Create(path)
	if err != nil {
		return nil, err
	}
	w := bufio.NewWriterSize(f, 1<<20)
	e := json.NewEncoder(w)
	e.SetEscapeHTML(false)
	return &ndWriter{f, w, e}, nil
}

func (n *ndWriter) Write(v any) error { return n.e.Encode(v) }
func (n *ndWriter) Close() error {
	if err := n.w.Flush(); err != nil {
		return err
	}
	return n.f.Close()
}

// guarded runs one resolution under a watchdog: a resolver that does not return is recorded and not waited for (its
// goroutine keeps spinning, so after three of them no further resolution is started).
var (
	errHung         = errors.New("VERIF: resolution did not return within 60s")
	hungResolutions int
)

func guarded(f func() (*resolve.Graph, error)) (*resolve.Graph, error) {
	if hungResolutions >= 3 {
		return nil, errHung
	}
	type res struct {
		g   *resolve.Graph
		err error
	}
	ch := make(chan res, 1)
	go func() {
		g, err := f()
		ch <- res{g, err}
	}()
	select {
	case r := <-ch:
		return r.g, r.err
	case <-time.After(60 * time.Second):
		hungResolutions++
		return nil, errHung
	}
}
