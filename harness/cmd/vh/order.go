package main

import (
	"fmt"
	"math/rand"
	"sort"

	"deps.dev/util/pypi"
	"deps.dev/util/resolve"
	"deps.dev/util/resolve/version"
	"deps.dev/util/semver"
)

func init() { commands["order"] = cmdOrder }

var sysByName = map[string]semver.System{
	"Default": semver.DefaultSystem, "Cargo": semver.Cargo, "Go": semver.Go, "Maven": semver.Maven,
	"NPM": semver.NPM, "NuGet": semver.NuGet, "PyPI": semver.PyPI, "RubyGems": semver.RubyGems,
	"Composer": semver.Composer,
}

type domRec struct {
	Sys  string `json:"sys"`
	Text string `json:"text"`
	Base string `json:"base"`
	// Lawful: the ecosystem's own comparator is a total preorder here (false only for the Maven
	// shapes on which ComparableVersion itself is not transitive); only these are sorted.
	Lawful bool `json:"lawful"`
}

// orderObs is one row of the observation: everything the real code says about version i.
type orderObs struct {
	I          int    `json:"i"`
	Text       string `json:"text"`
	Ok         bool   `json:"ok"`      // System.Parse accepted
	Err        string `json:"err"`     // parse error text (informational)
	Cmp        []int  `json:"cmp"`     // Compare(fresh parse i, fresh parse j); 9 when either did not parse
	CmpShared  []int  `json:"cmps"`    // same on long-lived shared *Version objects, after other calls
	CmpStr     []int  `json:"cmpstr"`  // System.Compare(text i, text j)
	Canon      string `json:"canon"`   // Canon(false)
	CanonOk    bool   `json:"canonok"` // canonical string parses in the same system
	CanonCmp   int    `json:"canoncmp"`
	Canon2     string `json:"canon2"` // Canon of the re-parsed canonical string
	CanonB     string `json:"canonb"` // Canon(true)
	CanonBOk   bool   `json:"canonbok"`
	CanonBCmp  int    `json:"canonbcmp"`
	CanonB2    string `json:"canonb2"`
	PyCanon    string `json:"pycanon"` // pypi.CanonVersion (PyPI only)
	PyCanonOk  bool   `json:"pycanonok"`
	PyCanonCmp int    `json:"pycanoncmp"`
	StrSame    bool   `json:"strsame"` // String()/Canon unchanged by all the comparisons (no mutation)
}

type sortObs struct {
	Sort  bool    `json:"sort"`
	Perms [][]int `json:"perms"` // for each shuffle: indices (1-based) in the order SortVersions / sort by Compare left them
	Kind  string  `json:"kind"`
}

// cmdOrder: vh order <domain.ndjson> <obs.ndjson> <seed>
func cmdOrder(args []string) error {
	if len(args) < 3 {
		return fmt.Errorf("usage: order dom obs seed")
	}
	dom, err := readNDJSON[domRec](args[0])
	if err != nil {
		return err
	}
	var seed int64
	fmt.Sscan(args[2], &seed)
	w, err := newNDWriter(args[1])
	if err != nil {
		return err
	}
	defer w.Close()
	n := len(dom)
	if n == 0 {
		return fmt.Errorf("empty domain")
	}
	sys, ok := sysByName[dom[0].Sys]
	if !ok {
		return fmt.Errorf("unknown system %q", dom[0].Sys)
	}
	shared := make([]*semver.Version, n)
	canon0 := make([]string, n)
	obs := make([]orderObs, n)
	for i, d := range dom {
		v, err := sys.Parse(d.Text)
		obs[i] = orderObs{I: i + 1, Text: d.Text, Ok: err == nil}
		if err != nil {
			obs[i].Err = err.Error()
			continue
		}
		shared[i] = v
		canon0[i] = v.Canon(true)
	}
	// Pass 1: fresh parses for every cell.
	for i := range dom {
		o := &obs[i]
		o.Cmp = make([]int, n)
		o.CmpStr = make([]int, n)
		for j := range dom {
			o.CmpStr[j] = sys.Compare(dom[i].Text, dom[j].Text)
			if shared[i] == nil || shared[j] == nil {
				o.Cmp[j] = 9
				continue
			}
			a, _ := sys.Parse(dom[i].Text)
			b, _ := sys.Parse(dom[j].Text)
			o.Cmp[j] = a.Compare(b)
		}
	}
	// Pass 2: shared objects, visited in a seeded random order, after pass 1 and canon calls.
	rng := rand.New(rand.NewSource(seed))
	for i := range dom {
		obs[i].CmpShared = make([]int, n)
	}
	order := rng.Perm(n * n)
	for _, k := range order {
		i, j := k/n, k%n
		if shared[i] == nil || shared[j] == nil {
			obs[i].CmpShared[j] = 9
			continue
		}
		obs[i].CmpShared[j] = shared[i].Compare(shared[j])
	}
	for i, d := range dom {
		o := &obs[i]
		v := shared[i]
		if v == nil {
			continue
		}
		o.StrSame = v.Canon(true) == canon0[i] && v.String() == d.Text
		o.Canon = v.Canon(false)
		if c, err := sys.Parse(o.Canon); err == nil {
			o.CanonOk = true
			o.CanonCmp = c.Compare(v)
			o.Canon2 = c.Canon(false)
		}
		o.CanonB = v.Canon(true)
		if c, err := sys.Parse(o.CanonB); err == nil {
			o.CanonBOk = true
			o.CanonBCmp = c.Compare(v)
			o.CanonB2 = c.Canon(true)
		}
		if sys == semver.PyPI {
			o.PyCanon = pypi.CanonVersion(d.Text)
			if c, err := sys.Parse(o.PyCanon); err == nil {
				o.PyCanonOk = true
				o.PyCanonCmp = c.Compare(v)
			}
		}
	}
	for i := range obs {
		if err := w.Write(&obs[i]); err != nil {
			return err
		}
	}
	// Sorting: seeded shuffles of the parsable subset, sorted by Compare, and (for the systems
	// resolve supports) by resolve.SortVersions.
	var idx []int
	for i := range dom {
		if shared[i] != nil && dom[i].Lawful {
			idx = append(idx, i)
		}
	}
	so := sortObs{Sort: true, Kind: "compare"}
	sr := sortObs{Sort: true, Kind: "resolve.SortVersions"}
	var rsys resolve.System
	switch sys {
	case semver.NPM:
		rsys = resolve.NPM
	case semver.Maven:
		rsys = resolve.Maven
	case semver.PyPI:
		rsys = resolve.PyPI
	}
	for s := 0; s < 6; s++ {
		p := append([]int(nil), idx...)
		rng.Shuffle(len(p), func(a, b int) { p[a], p[b] = p[b], p[a] })
		q := append([]int(nil), p...)
		sort.SliceStable(q, func(a, b int) bool { return shared[q[a]].Compare(shared[q[b]]) < 0 })
		so.Perms = append(so.Perms, plus1(q))
		if rsys != resolve.UnknownSystem {
			vs := make([]resolve.Version, len(p))
			back := map[string]int{}
			for k, i := range p {
				vs[k] = resolve.Version{VersionKey: resolve.VersionKey{
					PackageKey:  resolve.PackageKey{System: rsys, Name: "p"},
					VersionType: resolve.Concrete, Version: dom[i].Text}, AttrSet: version.AttrSet{}}
				back[dom[i].Text] = i
			}
			resolve.SortVersions(vs)
			r := make([]int, len(vs))
			for k, v := range vs {
				r[k] = back[v.Version]
			}
			sr.Perms = append(sr.Perms, plus1(r))
		}
	}
	if err := w.Write(&so); err != nil {
		return err
	}
	if rsys != resolve.UnknownSystem {
		if err := w.Write(&sr); err != nil {
			return err
		}
	}
	return nil
}

func plus1(a []int) []int {
	b := make([]int, len(a))
	for i, x := range a {
		b[i] = x + 1
	}
	return b
}
