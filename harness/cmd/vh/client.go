package main

import (
	"context"
	"errors"
	"fmt"
	"sort"

	"deps.dev/util/resolve"
	"deps.dev/util/resolve/dep"
	"deps.dev/util/resolve/version"
)

func init() { commands["client"] = cmdClient }

var rsysByName = map[string]resolve.System{"NPM": resolve.NPM, "Maven": resolve.Maven, "PyPI": resolve.PyPI}

type poolEntry struct {
	V    int    `json:"v"`
	A    int    `json:"a"`
	Text string `json:"text"`
}

type depRec struct {
	Name string `json:"name"`
	Req  string `json:"req"`
	Kind string `json:"kind"`
}

type clientOp struct {
	Pkg  string   `json:"pkg"`
	V    int      `json:"v"`
	Text string   `json:"text"`
	A    int      `json:"a"`
	Del  bool     `json:"del"`
	D    int      `json:"d"`
	Deps []depRec `json:"deps"`
}

type clientCase struct {
	Kind    string      `json:"kind"`
	Sys     string      `json:"sys"`
	Entries []poolEntry `json:"entries"`
	Reqs    []string    `json:"reqs"`
	Ops     []clientOp  `json:"ops"`
}

type va struct {
	V int `json:"v"`
	A int `json:"a"`
}

func attrOf(a int, deleted bool) version.AttrSet {
	var s version.AttrSet
	switch a {
	case 2:
		s.SetAttr(version.Tags, "latest")
	case 3:
		s.SetAttr(version.Tags, "beta")
	case 4:
		s.SetAttr(version.Blocked, "")
	}
	if deleted {
		s.SetAttr(version.Deleted, "")
	}
	return s
}

// attrID recovers the attribute variant from an AttrSet handed back by the real code (0: something else).
func attrID(s version.AttrSet) int {
	for a := 1; a <= 4; a++ {
		if s.Equal(attrOf(a, false)) {
			return a
		}
	}
	return 0
}

func mkVersion(sys resolve.System, pkg string, e poolEntry) resolve.Version {
	return resolve.Version{
		VersionKey: resolve.VersionKey{PackageKey: resolve.PackageKey{System: sys, Name: pkg}, VersionType: resolve.Concrete, Version: e.Text},
		AttrSet:    attrOf(e.A, false),
	}
}

func depType(kind string) dep.Type {
	switch kind {
	case "dev":
		return dep.NewType(dep.Dev)
	case "opt":
		return dep.NewType(dep.Opt)
	}
	return dep.Type{}
}

func kindOf(t dep.Type) string {
	switch {
	case t.IsRegular():
		return "reg"
	case t.Equal(dep.NewType(dep.Dev)):
		return "dev"
	case t.Equal(dep.NewType(dep.Opt)):
		return "opt"
	}
	return "?"
}

func permutations(n int, limit int) [][]int {
	var out [][]int
	p := make([]int, n)
	for i := range p {
		p[i] = i
	}
	var rec func(k int)
	rec = func(k int) {
		if len(out) >= limit {
			return
		}
		if k == n {
			out = append(out, append([]int(nil), p...))
			return
		}
		for i := k; i < n; i++ {
			p[k], p[i] = p[i], p[k]
			rec(k + 1)
			p[k], p[i] = p[i], p[k]
		}
	}
	rec(0)
	return out
}

type seqSet struct {
	seen map[string]bool
	list [][]va
}

func (s *seqSet) add(x []va) {
	k := fmt.Sprint(x)
	if s.seen == nil {
		s.seen = map[string]bool{}
	}
	if !s.seen[k] {
		s.seen[k] = true
		s.list = append(s.list, x)
	}
}

func toVA(vs []resolve.Version, byText map[string]int) []va {
	out := make([]va, 0, len(vs))
	for _, v := range vs {
		out = append(out, va{V: byText[v.Version], A: attrID(v.AttrSet)})
	}
	return out
}

type matchObs struct {
	Kind    string `json:"kind"`
	Sys     string `json:"sys"`
	Entries []va   `json:"entries"`
	R       int    `json:"r"`
	Req     string `json:"req"`
	Outs    [][]va `json:"outs"`   // distinct results of resolve.MatchRequirement over all permutations
	LcOuts  [][]va `json:"lcouts"` // distinct results of LocalClient.MatchingVersions over all insertion orders
	Intact  bool   `json:"intact"` // the input slice still holds the same entries after the call
	Perms   int    `json:"perms"`
}

type sortObs2 struct {
	Kind    string `json:"kind"`
	Sys     string `json:"sys"`
	Entries []va   `json:"entries"`
	Outs    [][]va `json:"outs"`   // distinct results of resolve.SortVersions
	LcOuts  [][]va `json:"lcouts"` // LocalClient.Versions after inserting in each order
}

func sameMultiset(a, b []va) bool {
	if len(a) != len(b) {
		return false
	}
	x := append([]va(nil), a...)
	y := append([]va(nil), b...)
	less := func(s []va) func(i, j int) bool {
		return func(i, j int) bool { return s[i].V < s[j].V || s[i].V == s[j].V && s[i].A < s[j].A }
	}
	sort.Slice(x, less(x))
	sort.Slice(y, less(y))
	for i := range x {
		if x[i] != y[i] {
			return false
		}
	}
	return true
}

func doMatch(c clientCase, w *ndWriter) error {
	sys := rsysByName[c.Sys]
	ctx := context.Background()
	byText := map[string]int{}
	ent := make([]va, len(c.Entries))
	for i, e := range c.Entries {
		byText[e.Text] = e.V
		ent[i] = va{e.V, e.A}
	}
	perms := permutations(len(c.Entries), 720)
	build := func(p []int) []resolve.Version {
		vs := make([]resolve.Version, len(p))
		for k, i := range p {
			vs[k] = mkVersion(sys, "pkg", c.Entries[i])
		}
		return vs
	}
	so := sortObs2{Kind: "sort", Sys: c.Sys, Entries: ent}
	var sset, lcset seqSet
	clients := make([]*resolve.LocalClient, len(perms))
	for pi, p := range perms {
		vs := build(p)
		resolve.SortVersions(vs)
		sset.add(toVA(vs, byText))
		lc := resolve.NewLocalClient()
		for _, v := range build(p) {
			lc.AddVersion(v, nil)
		}
		clients[pi] = lc
		got, err := lc.Versions(ctx, resolve.PackageKey{System: sys, Name: "pkg"})
		if err != nil {
			return err
		}
		lcset.add(toVA(got, byText))
	}
	so.Outs, so.LcOuts = sset.list, lcset.list
	if err := w.Write(&so); err != nil {
		return err
	}
	for r, req := range c.Reqs {
		o := matchObs{Kind: "match", Sys: c.Sys, Entries: ent, R: r + 1, Req: req, Intact: true, Perms: len(perms)}
		var outs, lcouts seqSet
		rk := resolve.VersionKey{PackageKey: resolve.PackageKey{System: sys, Name: "pkg"}, VersionType: resolve.Requirement, Version: req}
		for pi, p := range perms {
			vs := build(p)
			res := resolve.MatchRequirement(rk, vs)
			outs.add(toVA(res, byText))
			if !sameMultiset(toVA(vs, byText), ent) {
				o.Intact = false
			}
			got, err := clients[pi].MatchingVersions(ctx, rk)
			if err != nil {
				return err
			}
			lcouts.add(toVA(got, byText))
		}
		o.Outs, o.LcOuts = outs.list, lcouts.list
		if o.Outs == nil {
			o.Outs = [][]va{}
		}
		if err := w.Write(&o); err != nil {
			return err
		}
	}
	return nil
}

type pkgObs struct {
	Name  string `json:"name"`
	Found bool   `json:"found"`
	List  []va   `json:"list"`
}

type keyObs struct {
	Pkg       string   `json:"pkg"`
	V         int      `json:"v"`
	Found     bool     `json:"found"`
	A         int      `json:"a"`
	DepsFound bool     `json:"depsfound"`
	Deps      []depRec `json:"deps"`
	ErrKind   string   `json:"errkind"` // "notfound" when the error wraps ErrNotFound, else the text
}

type stepObs struct {
	Op   clientOp `json:"op"`
	Pkgs []pkgObs `json:"pkgs"`
	Keys []keyObs `json:"keys"`
}

type histObs struct {
	Kind  string    `json:"kind"`
	Sys   string    `json:"sys"`
	Steps []stepObs `json:"steps"`
}

var obsPkgNames = []string{"p", "q", "a", "b", "B", "zz-never"}

func observeClient(lc *resolve.LocalClient, sys resolve.System, texts map[int]string, byText map[string]int) ([]pkgObs, []keyObs) {
	ctx := context.Background()
	var pk []pkgObs
	for _, n := range obsPkgNames {
		vs, err := lc.Versions(ctx, resolve.PackageKey{System: sys, Name: n})
		o := pkgObs{Name: n, Found: err == nil, List: []va{}}
		if err == nil {
			o.List = toVA(vs, byText)
		}
		pk = append(pk, o)
	}
	var ks []keyObs
	var vids []int
	for v := range texts {
		vids = append(vids, v)
	}
	sort.Ints(vids)
	for _, n := range []string{"p", "q"} {
		for _, v := range vids {
			k := resolve.VersionKey{PackageKey: resolve.PackageKey{System: sys, Name: n}, VersionType: resolve.Concrete, Version: texts[v]}
			o := keyObs{Pkg: n, V: v, Deps: []depRec{}}
			got, err := lc.Version(ctx, k)
			if err == nil {
				o.Found = true
				o.A = attrID(got.AttrSet)
			} else if errors.Is(err, resolve.ErrNotFound) {
				o.ErrKind = "notfound"
			} else {
				o.ErrKind = err.Error()
			}
			ds, err := lc.Requirements(ctx, k)
			if err == nil {
				o.DepsFound = true
				for _, d := range ds {
					o.Deps = append(o.Deps, depRec{Name: d.Name, Req: d.Version, Kind: kindOf(d.Type)})
				}
			} else if !errors.Is(err, resolve.ErrNotFound) {
				o.ErrKind = err.Error()
			}
			ks = append(ks, o)
		}
	}
	return pk, ks
}

func doHist(c clientCase, w *ndWriter) error {
	sys := rsysByName[c.Sys]
	lc := resolve.NewLocalClient()
	texts := map[int]string{}
	byText := map[string]int{}
	for _, op := range c.Ops {
		texts[op.V] = op.Text
		byText[op.Text] = op.V
	}
	h := histObs{Kind: "hist", Sys: c.Sys}
	for _, op := range c.Ops {
		v := resolve.Version{
			VersionKey: resolve.VersionKey{PackageKey: resolve.PackageKey{System: sys, Name: op.Pkg}, VersionType: resolve.Concrete, Version: op.Text},
			AttrSet:    attrOf(op.A, op.Del),
		}
		var deps []resolve.RequirementVersion
		for _, d := range op.Deps {
			deps = append(deps, resolve.RequirementVersion{
				VersionKey: resolve.VersionKey{PackageKey: resolve.PackageKey{System: sys, Name: d.Name}, VersionType: resolve.Requirement, Version: d.Req},
				Type:       depType(d.Kind)})
		}
		lc.AddVersion(v, deps)
		pk, ks := observeClient(lc, sys, texts, byText)
		h.Steps = append(h.Steps, stepObs{Op: op, Pkgs: pk, Keys: ks})
	}
	return w.Write(&h)
}

// cmdClient: vh client <cases.ndjson> <obs.ndjson>
func cmdClient(args []string) error {
	if len(args) < 2 {
		return fmt.Errorf("usage: client cases obs")
	}
	cases, err := readNDJSON[clientCase](args[0])
	if err != nil {
		return err
	}
	w, err := newNDWriter(args[1])
	if err != nil {
		return err
	}
	defer w.Close()
	for _, c := range cases {
		switch c.Kind {
		case "match":
			err = doMatch(c, w)
		case "hist":
			err = doHist(c, w)
		}
		if err != nil {
			return err
		}
	}
	return nil
}
