package main

import (
	"context"
	"crypto/sha1"
	"encoding/hex"
	"encoding/json"
	"fmt"
	"math/rand"
	"os"
	"sort"
	"strings"
	"sync"

	"deps.dev/util/resolve"
	"deps.dev/util/resolve/maven"
	"deps.dev/util/resolve/npm"
	"deps.dev/util/resolve/pypi"
)

func init() { commands["session"] = cmdSession }

type planCall struct {
	Root int `json:"root"`
	Res  int `json:"res"`
}
type planStep struct {
	Kind  string     `json:"kind"`
	Root  int        `json:"root"`
	Res   int        `json:"res"`
	Calls []planCall `json:"calls"`
}
type sessionCase struct {
	Sys      string          `json:"sys"`
	Case     json.RawMessage `json:"case"`  // universe in the format of the system's own harness command
	Roots    []uRoot         `json:"roots"` // three roots (name, version index)
	Steps    []planStep      `json:"steps"`
	Orders   int             `json:"orders"`   // > 0: insertion-order experiment with that many shuffles
	Parallel int             `json:"parallel"` // > 0: one batch of that many concurrent calls per root mix
}
type sessEvent struct {
	Step   int    `json:"step"`
	Root   int    `json:"root"`
	Res    int    `json:"res"`
	Digest string `json:"digest"`
	Client string `json:"client"`
}
type sessObs struct {
	Kind    string      `json:"kind"`
	Sys     string      `json:"sys"`
	Client0 string      `json:"client0"`
	Events  []sessEvent `json:"events"`
	Digests []string    `json:"digests"`
	Note    string      `json:"note"`
}

type addOp struct {
	v    resolve.Version
	deps []resolve.RequirementVersion
}

// captureClient records AddVersion calls so that the same universe can be replayed in another order.
func universeOps(sys string, raw json.RawMessage, tb map[string]json.RawMessage) ([]addOp, error) {
	var lc *resolve.LocalClient
	switch sys {
	case "NPM":
		var c npmCase
		var t npmTables
		if err := json.Unmarshal(raw, &c); err != nil {
			return nil, err
		}
		json.Unmarshal(tb["NPM"], &t)
		lc = loadNpmUniverse(c, t)
	case "Maven":
		var c mCase
		var t npmTables
		if err := json.Unmarshal(raw, &c); err != nil {
			return nil, err
		}
		json.Unmarshal(tb["Maven"], &t)
		lc = loadMavenUniverse(c, t.Versions, t.Reqs)
	case "PyPI":
		var c pCase
		var t pTables
		if err := json.Unmarshal(raw, &c); err != nil {
			return nil, err
		}
		json.Unmarshal(tb["PyPI"], &t)
		lc = loadPipUniverse(c, t)
	default:
		return nil, fmt.Errorf("unknown system %q", sys)
	}
	// Read the loaded client back into an operation list (deep copies, so that every client built from it owns its data).
	ctx := context.Background()
	var pks []resolve.PackageKey
	for pk := range lc.PackageVersions {
		pks = append(pks, pk)
	}
	sort.Slice(pks, func(i, j int) bool { return pks[i].Name < pks[j].Name })
	var ops []addOp
	for _, pk := range pks {
		for _, v := range lc.PackageVersions[pk] {
			deps, _ := lc.Requirements(ctx, v.VersionKey)
			cp := make([]resolve.RequirementVersion, len(deps))
			for i, d := range deps {
				cp[i] = resolve.RequirementVersion{VersionKey: d.VersionKey, Type: d.Type.Clone()}
			}
			ops = append(ops, addOp{v: resolve.Version{VersionKey: v.VersionKey, AttrSet: v.AttrSet.Clone()}, deps: cp})
		}
	}
	return ops, nil
}

func buildClient(ops []addOp, order []int) *resolve.LocalClient {
	lc := resolve.NewLocalClient()
	for _, i := range order {
		o := ops[i]
		deps := make([]resolve.RequirementVersion, len(o.deps))
		for k, d := range o.deps {
			deps[k] = resolve.RequirementVersion{VersionKey: d.VersionKey, Type: d.Type.Clone()}
		}
		lc.AddVersion(resolve.Version{VersionKey: o.v.VersionKey, AttrSet: o.v.AttrSet.Clone()}, deps)
	}
	return lc
}

func sha(s string) string {
	h := sha1.Sum([]byte(s))
	return hex.EncodeToString(h[:8])
}

func graphDigest(g *resolve.Graph, err error) string {
	if err != nil {
		return "ERR:" + sha(err.Error())
	}
	if g == nil {
		return "NIL"
	}
	g.Duration = 0
	if cerr := g.Canon(); cerr != nil {
		// canonicalisation failed (duplicate siblings): fall back to an order-independent content digest
		var parts []string
		for _, e := range g.Edges {
			parts = append(parts, fmt.Sprint(g.Nodes[e.From].Version, g.Nodes[e.To].Version, e.Requirement, e.Type))
		}
		sort.Strings(parts)
		return "NC:" + sha(strings.Join(parts, "\n")+g.Error)
	}
	return sha(g.String() + "|" + g.Error)
}

// clientDigest: what the client reports for every package, version and requirement of the universe.
func clientDigest(lc *resolve.LocalClient, ops []addOp) string {
	ctx := context.Background()
	var b strings.Builder
	seenP := map[resolve.PackageKey]bool{}
	for _, o := range ops {
		pk := o.v.PackageKey
		if !seenP[pk] {
			seenP[pk] = true
			vs, err := lc.Versions(ctx, pk)
			fmt.Fprint(&b, pk, err, "[")
			for _, v := range vs {
				fmt.Fprint(&b, v.VersionKey, v.AttrSet, ";")
			}
			fmt.Fprint(&b, "]")
		}
		v, err := lc.Version(ctx, o.v.VersionKey)
		fmt.Fprint(&b, v.VersionKey, v.AttrSet, err)
		ds, err := lc.Requirements(ctx, o.v.VersionKey)
		fmt.Fprint(&b, err, "{")
		for _, d := range ds {
			fmt.Fprint(&b, d.VersionKey, d.Type, ";")
			ms, err := lc.MatchingVersions(ctx, d.VersionKey)
			fmt.Fprint(&b, err, "<")
			for _, m := range ms {
				fmt.Fprint(&b, m.VersionKey, ",")
			}
			fmt.Fprint(&b, ">")
		}
		fmt.Fprint(&b, "}")
	}
	return sha(b.String())
}

func newResolver(sys string, lc resolve.Client) resolve.Resolver {
	switch sys {
	case "NPM":
		return npm.NewResolver(lc)
	case "Maven":
		return maven.NewResolver(lc)
	}
	return pypi.NewResolver(lc)
}

func rootKey(sys string, r uRoot, tb map[string]json.RawMessage) resolve.VersionKey {
	var t npmTables
	json.Unmarshal(tb[sys], &t)
	return resolve.VersionKey{PackageKey: resolve.PackageKey{System: rsysByName[sys], Name: r.Name}, VersionType: resolve.Concrete, Version: t.Versions[r.V-1]}
}

// cmdSession: vh session <tables.json {NPM:..,Maven:..,PyPI:..}> <cases.ndjson> <obs.ndjson> <seed>
func cmdSession(args []string) error {
	if len(args) < 4 {
		return fmt.Errorf("usage: session tables cases obs seed")
	}
	tb := map[string]json.RawMessage{}
	b, err := os.ReadFile(args[0])
	if err != nil {
		return err
	}
	if err := json.Unmarshal(b, &tb); err != nil {
		return err
	}
	cases, err := readNDJSON[sessionCase](args[1])
	if err != nil {
		return err
	}
	var seed int64
	fmt.Sscan(args[3], &seed)
	rng := rand.New(rand.NewSource(seed))
	w, err := newNDWriter(args[2])
	if err != nil {
		return err
	}
	defer w.Close()
	ctx := context.Background()
	for _, c := range cases {
		ops, err := universeOps(c.Sys, c.Case, tb)
		if err != nil {
			return err
		}
		ident := make([]int, len(ops))
		for i := range ident {
			ident[i] = i
		}
		roots := make([]resolve.VersionKey, len(c.Roots))
		for i, r := range c.Roots {
			roots[i] = rootKey(c.Sys, r, tb)
		}
		if c.Orders > 0 {
			o := sessObs{Kind: "orders", Sys: c.Sys, Events: []sessEvent{}}
			for k := 0; k <= c.Orders; k++ {
				order := append([]int(nil), ident...)
				if k > 0 {
					rng.Shuffle(len(order), func(a, b int) { order[a], order[b] = order[b], order[a] })
				}
				lc := buildClient(ops, order)
				var ds []string
				for _, rt := range roots {
					g, err := newResolver(c.Sys, lc).Resolve(ctx, rt)
					ds = append(ds, graphDigest(g, err))
				}
				o.Digests = append(o.Digests, strings.Join(ds, "/"))
			}
			if err := w.Write(&o); err != nil {
				return err
			}
			continue
		}
		lc := buildClient(ops, ident)
		o := sessObs{Kind: "session", Sys: c.Sys, Client0: clientDigest(lc, ops), Events: []sessEvent{}, Digests: []string{}}
		// Baseline (step 0): every root resolved once with a fresh resolver over a fresh client; the first
		// result for a root that the model remembers is therefore one no earlier call can have influenced.
		for ri, rt := range roots {
			fc := buildClient(ops, ident)
			g, err := newResolver(c.Sys, fc).Resolve(ctx, rt)
			o.Events = append(o.Events, sessEvent{Step: 0, Root: ri + 1, Res: 0, Digest: graphDigest(g, err), Client: o.Client0})
		}
		resolvers := map[int]resolve.Resolver{}
		getRes := func(id int) resolve.Resolver {
			if resolvers[id] == nil {
				resolvers[id] = newResolver(c.Sys, lc)
			}
			return resolvers[id]
		}
		steps := c.Steps
		if c.Parallel > 0 {
			var calls []planCall
			for k := 0; k < c.Parallel; k++ {
				calls = append(calls, planCall{Root: 1 + k%len(roots), Res: 1})
			}
			steps = []planStep{{Kind: "one", Root: 1, Res: 2}, {Kind: "batch", Calls: calls}, {Kind: "one", Root: 1, Res: 1}}
		}
		for si, st := range steps {
			if st.Kind == "one" {
				g, err := getRes(st.Res).Resolve(ctx, roots[st.Root-1])
				o.Events = append(o.Events, sessEvent{Step: si + 1, Root: st.Root, Res: st.Res, Digest: graphDigest(g, err), Client: clientDigest(lc, ops)})
				continue
			}
			digs := make([]string, len(st.Calls))
			var wg sync.WaitGroup
			for k, call := range st.Calls {
				var r resolve.Resolver
				if c.Sys == "PyPI" {
					r = newResolver(c.Sys, lc) // one resolver per goroutine over the shared client
				} else {
					r = getRes(call.Res)
				}
				wg.Add(1)
				go func(k int, r resolve.Resolver, rt resolve.VersionKey) {
					defer wg.Done()
					// a panic inside a concurrent call is an observation (the digest then differs from every baseline), not a dead harness
					defer func() {
						if p := recover(); p != nil {
							digs[k] = fmt.Sprintf("PANIC in concurrent Resolve: %.120v", p)
						}
					}()
					g, err := r.Resolve(ctx, rt)
					digs[k] = graphDigest(g, err)
				}(k, r, roots[call.Root-1])
			}
			wg.Wait()
			cd := clientDigest(lc, ops)
			for k, call := range st.Calls {
				o.Events = append(o.Events, sessEvent{Step: si + 1, Root: call.Root, Res: call.Res, Digest: digs[k], Client: cd})
			}
		}
		if err := w.Write(&o); err != nil {
			return err
		}
	}
	return nil
}
