package main

import (
	"context"
	"encoding/json"
	"fmt"
	"os"
	"sort"

	"deps.dev/util/resolve"
	"deps.dev/util/resolve/dep"
	"deps.dev/util/resolve/npm"
	"deps.dev/util/resolve/version"
)

func init() { commands["npm"] = cmdNpm }

type uDep struct {
	Name  string `json:"name"`
	R     int    `json:"r"`
	Kind  string `json:"kind"`
	Alias string `json:"alias"`
}
type uVer struct {
	V      int    `json:"v"`
	Latest bool   `json:"latest"`
	Dep    bool   `json:"dep"` // deprecated
	Deps   []uDep `json:"deps"`
}
type uPkg struct {
	Name     string `json:"name"`
	Versions []uVer `json:"versions"`
}
type uRoot struct {
	Name string `json:"name"`
	V    int    `json:"v"`
}
type npmCase struct {
	Universe []uPkg          `json:"universe"`
	Root     uRoot           `json:"root"`
	Model    json.RawMessage `json:"model,omitempty"`
}
type npmTables struct {
	Versions []string `json:"versions"`
	Reqs     []string `json:"reqs"`
}
type nErr struct {
	Name string `json:"name"`
	R    int    `json:"r"`
}
type nNode struct {
	Name string `json:"name"`
	V    int    `json:"v"`
	Errs []nErr `json:"errs"`
}
type nEdge struct {
	F     int    `json:"f"`
	T     int    `json:"t"`
	R     int    `json:"r"`
	Kind  string `json:"kind"`
	Sel   bool   `json:"sel"`
	Alias string `json:"alias"`
}
type nGraph struct {
	Nodes []nNode `json:"nodes"`
	Edges []nEdge `json:"edges"`
}
type nKid struct {
	Name string `json:"name"`
	Idx  int    `json:"idx"`
}
type nTree struct {
	Gid    int    `json:"gid"`
	Name   string `json:"name"`
	V      int    `json:"v"`
	Parent int    `json:"parent"`
	Kids   []nKid `json:"kids"`
	AKids  []nKid `json:"akids"`
}
type npmObs struct {
	Model    json.RawMessage `json:"model,omitempty"` // what the algorithm model NpmResolve.tla returns; passed through to the trace
	Universe []uPkg          `json:"universe"`
	Root     uRoot           `json:"root"`
	Ok       bool            `json:"ok"`
	Err      string          `json:"err"`
	GErr     string          `json:"gerr"`
	Graph    nGraph          `json:"graph"`
	Tree     []nTree         `json:"tree"`
	Unmapped string          `json:"unmapped"` // something in the result could not be expressed in pool indices
}

func npmDepType(d uDep) dep.Type {
	var t dep.Type
	switch d.Kind {
	case "opt":
		t.AddAttr(dep.Opt, "")
	case "dev":
		t.AddAttr(dep.Dev, "")
	case "peer":
		t.AddAttr(dep.Scope, "peer")
	case "bundle":
		t.AddAttr(dep.Scope, "bundle")
	}
	if d.Alias != "" {
		t.AddAttr(dep.KnownAs, d.Alias)
	}
	return t
}

func npmKind(t dep.Type) string {
	switch {
	case t.HasAttr(dep.Opt):
		return "opt"
	case t.HasAttr(dep.Dev):
		return "dev"
	}
	if s, ok := t.GetAttr(dep.Scope); ok {
		return s
	}
	return "reg"
}

func loadNpmUniverse(c npmCase, tb npmTables) *resolve.LocalClient {
	lc := resolve.NewLocalClient()
	for _, p := range c.Universe {
		for _, v := range p.Versions {
			var as version.AttrSet
			if v.Latest {
				as.SetAttr(version.Tags, "latest")
			}
			if v.Dep {
				as.SetAttr(version.Blocked, "")
			}
			var deps []resolve.RequirementVersion
			for _, d := range v.Deps {
				deps = append(deps, resolve.RequirementVersion{
					VersionKey: resolve.VersionKey{PackageKey: resolve.PackageKey{System: resolve.NPM, Name: d.Name}, VersionType: resolve.Requirement, Version: tb.Reqs[d.R-1]},
					Type:       npmDepType(d)})
			}
			lc.AddVersion(resolve.Version{VersionKey: resolve.VersionKey{PackageKey: resolve.PackageKey{System: resolve.NPM, Name: p.Name}, VersionType: resolve.Concrete, Version: tb.Versions[v.V-1]}, AttrSet: as}, deps)
		}
	}
	return lc
}

// cmdNpm: vh npm <tables.json> <cases.ndjson> <obs.ndjson>
func cmdNpm(args []string) error {
	if len(args) < 3 {
		return fmt.Errorf("usage: npm tables cases obs")
	}
	var tb npmTables
	b, err := os.ReadFile(args[0])
	if err != nil {
		return err
	}
	if err := json.Unmarshal(b, &tb); err != nil {
		return err
	}
	vidx := map[string]int{}
	for i, t := range tb.Versions {
		vidx[t] = i + 1
	}
	ridx := map[string]int{}
	for i, t := range tb.Reqs {
		ridx[t] = i + 1
	}
	cases, err := readNDJSON[npmCase](args[1])
	if err != nil {
		return err
	}
	w, err := newNDWriter(args[2])
	if err != nil {
		return err
	}
	defer w.Close()
	ctx := context.Background()
	// VERIF_STEPS=<file>: also record the resolver's own account of every step (hook npm.VerifStep, build tag verif), one "start"
	// event with the universe per resolution followed by the events the resolver emits.
	var steps *ndWriter
	type stepEv struct {
		Ev       string `json:"ev"`
		Universe []uPkg `json:"universe,omitempty"`
		Name     string `json:"name"`
		V        int    `json:"v"`
		R        int    `json:"r"`
		Alias    string `json:"alias"`
		Outcome  string `json:"outcome"`
	}
	var (
		stepBuf []stepEv
		stepGen int
	)
	if f := os.Getenv("VERIF_STEPS"); f != "" {
		var err error
		if steps, err = newNDWriter(f); err != nil {
			return err
		}
		defer steps.Close()
	}
	for _, c := range cases {
		if steps != nil {
			stepGen++
			gen := stepGen
			stepBuf = []stepEv{{Ev: "start", Universe: c.Universe}}
			npm.VerifStep = func(ev, name, ver, req, alias, outcome string) {
				if gen != stepGen {
					return // an abandoned resolution still running
				}
				stepBuf = append(stepBuf, stepEv{Ev: ev, Name: name, V: vidx[ver], R: ridx[req], Alias: alias, Outcome: outcome})
			}
		}
		o := npmObs{Universe: c.Universe, Root: c.Root, Graph: nGraph{Nodes: []nNode{}, Edges: []nEdge{}}, Tree: []nTree{}, Model: c.Model}
		lc := loadNpmUniverse(c, tb)
		var tree *npm.VerifNode
		npm.VerifTree = func(r *npm.VerifNode) { tree = r }
		g, err := guarded(func() (*resolve.Graph, error) {
			return npm.NewResolver(lc).Resolve(ctx, resolve.VersionKey{PackageKey: resolve.PackageKey{System: resolve.NPM, Name: c.Root.Name}, VersionType: resolve.Concrete, Version: tb.Versions[c.Root.V-1]})
		})
		if steps != nil {
			npm.VerifStep = nil
			stepGen++
			for i := range stepBuf {
				if e := steps.Write(&stepBuf[i]); e != nil {
					return e
				}
			}
		}
		npm.VerifTree = nil
		if err != nil {
			o.Err = err.Error()
			if e := w.Write(&o); e != nil {
				return e
			}
			continue
		}
		o.Ok = true
		o.GErr = g.Error
		for _, n := range g.Nodes {
			nn := nNode{Name: n.Version.Name, V: vidx[n.Version.Version], Errs: []nErr{}}
			if nn.V == 0 {
				o.Unmapped = "node version " + n.Version.Version
			}
			for _, e := range n.Errors {
				r := ridx[e.Req.Version]
				if r == 0 {
					o.Unmapped = "error requirement " + e.Req.Version
				}
				nn.Errs = append(nn.Errs, nErr{Name: e.Req.Name, R: r})
			}
			o.Graph.Nodes = append(o.Graph.Nodes, nn)
		}
		for _, e := range g.Edges {
			r := ridx[e.Requirement]
			if r == 0 {
				o.Unmapped = "edge requirement " + e.Requirement
			}
			alias, _ := e.Type.GetAttr(dep.KnownAs)
			o.Graph.Edges = append(o.Graph.Edges, nEdge{F: int(e.From) + 1, T: int(e.To) + 1, R: r, Kind: npmKind(e.Type), Sel: e.Type.HasAttr(dep.Selector), Alias: alias})
		}
		if tree == nil {
			o.Unmapped = "no tree from hook"
		} else {
			var walk func(n *npm.VerifNode, parent int) int
			walk = func(n *npm.VerifNode, parent int) int {
				idx := len(o.Tree) + 1
				gid := int(n.ID) + 1
				if n.ID == 0 && parent != 0 {
					gid = 0
				}
				o.Tree = append(o.Tree, nTree{Gid: gid, Name: n.Package, V: vidx[n.Version], Parent: parent, Kids: []nKid{}, AKids: []nKid{}})
				var names []string
				for k := range n.Children {
					names = append(names, k)
				}
				sort.Strings(names)
				for _, k := range names {
					ci := walk(n.Children[k], idx)
					o.Tree[idx-1].Kids = append(o.Tree[idx-1].Kids, nKid{Name: k, Idx: ci})
				}
				names = names[:0]
				for k := range n.Alias {
					names = append(names, k)
				}
				sort.Strings(names)
				for _, k := range names {
					ci := walk(n.Alias[k], idx)
					o.Tree[idx-1].AKids = append(o.Tree[idx-1].AKids, nKid{Name: k, Idx: ci})
				}
				return idx
			}
			walk(tree, 0)
		}
		if e := w.Write(&o); e != nil {
			return e
		}
	}
	return nil
}
