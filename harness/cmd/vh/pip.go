package main

import (
	"context"
	"encoding/json"
	"fmt"
	"os"
	"strings"

	"deps.dev/util/resolve"
	"deps.dev/util/resolve/dep"
	"deps.dev/util/resolve/pypi"
	"deps.dev/util/resolve/version"
	"deps.dev/util/semver"
)

func init() { commands["pip"] = cmdPip; commands["pipmatch"] = cmdPipMatch }

type pDep struct {
	Name   string   `json:"name"`
	R      int      `json:"r"`
	M      int      `json:"m"`
	Extras []string `json:"extras"`
}
type pVer struct {
	V    int    `json:"v"`
	Deps []pDep `json:"deps"`
}
type pPkg struct {
	Name     string `json:"name"`
	Versions []pVer `json:"versions"`
}
type pCase struct {
	Universe []pPkg          `json:"universe"`
	Root     uRoot           `json:"root"`
	Model    json.RawMessage `json:"model,omitempty"` // what the algorithm model PipResolve.tla returns; passed through to the trace
}
type pTables struct {
	Versions []string `json:"versions"`
	Reqs     []string `json:"reqs"`
	Markers  []string `json:"markers"`
}
type pNode struct {
	Name string `json:"name"`
	V    int    `json:"v"`
}
type pEdge struct {
	F      int      `json:"f"`
	T      int      `json:"t"`
	R      int      `json:"r"`
	M      int      `json:"m"`
	Extras []string `json:"extras"`
}
type pGraph struct {
	Nodes []pNode `json:"nodes"`
	Edges []pEdge `json:"edges"`
}
type pObs struct {
	Universe []pPkg          `json:"universe"`
	Root     uRoot           `json:"root"`
	Ok       bool            `json:"ok"` // a graph without a graph-level error was returned
	Err      string          `json:"err"`
	GErr     string          `json:"gerr"`
	Graph    pGraph          `json:"graph"`
	Unmapped string          `json:"unmapped"`
	Model    json.RawMessage `json:"model,omitempty"`
	Repinned bool            `json:"repinned"` // some pin was replaced in place during the resolution (derived from the hook's pin counts)
}

func loadPipUniverse(c pCase, tb pTables) *resolve.LocalClient {
	lc := resolve.NewLocalClient()
	for _, p := range c.Universe {
		for _, v := range p.Versions {
			var deps []resolve.RequirementVersion
			for _, d := range v.Deps {
				var t dep.Type
				if d.M > 0 {
					t.AddAttr(dep.Environment, tb.Markers[d.M-1])
				}
				if len(d.Extras) > 0 {
					t.AddAttr(dep.EnabledDependencies, strings.Join(d.Extras, ","))
				}
				deps = append(deps, resolve.RequirementVersion{
					VersionKey: resolve.VersionKey{PackageKey: resolve.PackageKey{System: resolve.PyPI, Name: d.Name}, VersionType: resolve.Requirement, Version: tb.Reqs[d.R-1]},
					Type:       t})
			}
			lc.AddVersion(resolve.Version{VersionKey: resolve.VersionKey{PackageKey: resolve.PackageKey{System: resolve.PyPI, Name: p.Name}, VersionType: resolve.Concrete, Version: tb.Versions[v.V-1]}, AttrSet: version.AttrSet{}}, deps)
		}
	}
	return lc
}

func pipGraph(g *resolve.Graph, vidx, ridx, midx map[string]int) (pGraph, string) {
	out := pGraph{Nodes: []pNode{}, Edges: []pEdge{}}
	un := ""
	for _, n := range g.Nodes {
		v := vidx[n.Version.Version]
		if v == 0 {
			un = "node version " + n.Version.Version
		}
		out.Nodes = append(out.Nodes, pNode{Name: n.Version.Name, V: v})
	}
	for _, e := range g.Edges {
		r := ridx[e.Requirement]
		if r == 0 {
			un = "edge requirement " + e.Requirement
		}
		pe := pEdge{F: int(e.From) + 1, T: int(e.To) + 1, R: r, Extras: []string{}}
		if m, ok := e.Type.GetAttr(dep.Environment); ok {
			pe.M = midx[m]
			if pe.M == 0 {
				un = "edge marker " + m
			}
		}
		if x, ok := e.Type.GetAttr(dep.EnabledDependencies); ok && x != "" {
			pe.Extras = strings.Split(x, ",")
		}
		out.Edges = append(out.Edges, pe)
	}
	return out, un
}

// cmdPip: vh pip <tables.json> <cases.ndjson> <obs.ndjson>
func cmdPip(args []string) error {
	if len(args) < 3 {
		return fmt.Errorf("usage: pip tables cases obs")
	}
	var tb pTables
	b, err := os.ReadFile(args[0])
	if err != nil {
		return err
	}
	if err := json.Unmarshal(b, &tb); err != nil {
		return err
	}
	vidx, ridx, midx := map[string]int{}, map[string]int{}, map[string]int{}
	for i, t := range tb.Versions {
		vidx[t] = i + 1
	}
	for i, t := range tb.Reqs {
		ridx[t] = i + 1
	}
	for i, t := range tb.Markers {
		midx[t] = i + 1
	}
	cases, err := readNDJSON[pCase](args[1])
	if err != nil {
		return err
	}
	w, err := newNDWriter(args[2])
	if err != nil {
		return err
	}
	defer w.Close()
	ctx := context.Background()
	// VERIF_STEPS=<file>: also record the resolver's own account of every round (hook pypi.VerifStep, build tag verif), one
	// "start" event with the universe per resolution followed by the events the resolver emits.
	var steps *ndWriter
	type stepEv struct {
		Ev       string `json:"ev"`
		Universe []pPkg `json:"universe,omitempty"`
		Name     string `json:"name"`
		V        int    `json:"v"`
		Outcome  string `json:"outcome"`
		Pins     int    `json:"pins"`
	}
	var (
		stepBuf []stepEv
		stepGen int
	)
	if f := os.Getenv("VERIF_STEPS"); f != "" {
		var err error
		if steps, err = newNDWriter(f); err != nil {
			return err
		}
		defer steps.Close()
	}
	for _, c := range cases {
		// The hook always runs: from the reported pin counts the harness derives whether any pin was replaced in place during
		// this resolution (a "pin" that does not grow the mapping), which the trace specification needs to tell the recorded
		// stale-criteria deviation (C08-F24) from anything else.
		stepGen++
		gen := stepGen
		stepBuf = []stepEv{{Ev: "start", Universe: c.Universe}}
		lastPins, repinned := 0, false
		pypi.VerifStep = func(name, ver, outcome string, pins int) {
			if gen != stepGen {
				return // an abandoned resolution still running
			}
			if outcome == "pin" && pins == lastPins {
				repinned = true
			}
			lastPins = pins
			if steps == nil {
				return
			}
			ev := "round"
			if outcome == "done" {
				ev = "done"
			}
			stepBuf = append(stepBuf, stepEv{Ev: ev, Name: name, V: vidx[ver], Outcome: outcome, Pins: pins})
		}
		o := pObs{Universe: c.Universe, Root: c.Root, Graph: pGraph{Nodes: []pNode{}, Edges: []pEdge{}}, Model: c.Model}
		lc := loadPipUniverse(c, tb)
		g, err := guarded(func() (*resolve.Graph, error) {
			return pypi.NewResolver(lc).Resolve(ctx, resolve.VersionKey{PackageKey: resolve.PackageKey{System: resolve.PyPI, Name: c.Root.Name}, VersionType: resolve.Concrete, Version: tb.Versions[c.Root.V-1]})
		})
		pypi.VerifStep = nil
		stepGen++
		o.Repinned = repinned
		if steps != nil {
			for i := range stepBuf {
				if e := steps.Write(&stepBuf[i]); e != nil {
					return e
				}
			}
		}
		if err != nil || g == nil {
			if err != nil {
				o.Err = err.Error()
			}
		} else if g.Error != "" {
			o.GErr = g.Error
		} else {
			o.Ok = true
			o.Graph, o.Unmapped = pipGraph(g, vidx, ridx, midx)
		}
		if e := w.Write(&o); e != nil {
			return e
		}
	}
	return nil
}

// cmdPipMatch: vh pipmatch <tables.json> <out.json>: what util/semver answers for every (requirement, version) of the pools:
// Constraint.Match, Constraint.MatchVersionPrerelease and Constraint.HasPrerelease.  These are facts about util/semver (decided
// by C03); the resolver model PipResolve.tla takes them as given so that it models the resolver and nothing else.
func cmdPipMatch(args []string) error {
	if len(args) < 2 {
		return fmt.Errorf("usage: pipmatch tables out")
	}
	var tb pTables
	b, err := os.ReadFile(args[0])
	if err != nil {
		return err
	}
	if err := json.Unmarshal(b, &tb); err != nil {
		return err
	}
	type out struct {
		Match    [][]bool `json:"match"`
		MatchPre [][]bool `json:"matchpre"`
		HasPre   []bool   `json:"haspre"`
	}
	var o out
	for _, r := range tb.Reqs {
		c, err := semver.PyPI.ParseConstraint(r)
		if err != nil {
			return fmt.Errorf("requirement %q: %v", r, err)
		}
		var m, mp []bool
		for _, v := range tb.Versions {
			pv, err := semver.PyPI.Parse(v)
			if err != nil {
				return fmt.Errorf("version %q: %v", v, err)
			}
			m = append(m, c.Match(v))
			mp = append(mp, c.MatchVersionPrerelease(pv))
		}
		o.Match, o.MatchPre, o.HasPre = append(o.Match, m), append(o.MatchPre, mp), append(o.HasPre, c.HasPrerelease())
	}
	b, err = json.Marshal(o)
	if err != nil {
		return err
	}
	return os.WriteFile(args[1], b, 0o644)
}
