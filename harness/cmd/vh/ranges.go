package main

import (
	"fmt"

	"deps.dev/util/semver"
)

func init() { commands["ranges"] = cmdRanges }

type uniRec struct {
	Text string `json:"text"`
	Rel  bool   `json:"rel"`
}

type catRec struct {
	ID     int    `json:"id"`
	Text   string `json:"text"`
	Ref    bool   `json:"ref"`
	Pair   bool   `json:"pair"`
	Expect []int  `json:"expect"`
}

// rangeObs: what the real code says about one requirement.
type rangeObs struct {
	Kind  string `json:"kind"` // "req"
	ID    int    `json:"id"`
	Text  string `json:"text"`
	Ok    bool   `json:"ok"` // ParseConstraint accepted
	Err   string `json:"err"`
	M     []int  `json:"m"`    // candidates with MatchVersion true (1-based indices into the universe)
	MStr  []int  `json:"mstr"` // same through Match(string)
	P     []int  `json:"p"`    // MatchVersionPrerelease
	Set   string `json:"set"`  // c.Set().String()
	Empty bool   `json:"empty"`
	RtOk  bool   `json:"rtok"` // ParseSetConstraint(Set) accepted
	Set2  string `json:"set2"`
	P2    []int  `json:"p2"` // MatchVersionPrerelease of the re-parsed set
	M2    []int  `json:"m2"`
}

// pairObs: union / intersection of an ordered pair of requirement sets.
type pairObs struct {
	Kind   string `json:"kind"` // "pair"
	A      int    `json:"a"`
	B      int    `json:"b"`
	UOk    bool   `json:"uok"`
	UText  string `json:"utext"`
	MU     []int  `json:"mu"`
	PU     []int  `json:"pu"`
	UEmpty bool   `json:"uempty"`
	IOk    bool   `json:"iok"`
	IText  string `json:"itext"`
	MI     []int  `json:"mi"`
	PI     []int  `json:"pi"`
	IEmpty bool   `json:"iempty"`
	AText  string `json:"atext"` // operand sets unchanged by the operation? (text before == after)
	Intact bool   `json:"intact"`
}

func matchIdx(vs []*semver.Version, f func(v *semver.Version) bool) []int {
	out := []int{}
	for i, v := range vs {
		if v != nil && f(v) {
			out = append(out, i+1)
		}
	}
	return out
}

// cmdRanges: vh ranges <sys> <uni.ndjson> <cat.ndjson> <obs.ndjson>
func cmdRanges(args []string) error {
	if len(args) < 4 {
		return fmt.Errorf("usage: ranges sys uni cat obs")
	}
	sys, ok := sysByName[args[0]]
	if !ok {
		return fmt.Errorf("unknown system %q", args[0])
	}
	uni, err := readNDJSON[uniRec](args[1])
	if err != nil {
		return err
	}
	cat, err := readNDJSON[catRec](args[2])
	if err != nil {
		return err
	}
	w, err := newNDWriter(args[3])
	if err != nil {
		return err
	}
	defer w.Close()
	vs := make([]*semver.Version, len(uni))
	for i, u := range uni {
		v, err := sys.Parse(u.Text)
		if err != nil {
			return fmt.Errorf("universe version %q does not parse in %s: %v", u.Text, args[0], err)
		}
		vs[i] = v
	}
	cons := map[int]*semver.Constraint{}
	var pairIDs []int
	for _, c := range cat {
		o := rangeObs{Kind: "req", ID: c.ID, Text: c.Text, M: []int{}, MStr: []int{}, P: []int{}, P2: []int{}, M2: []int{}}
		con, err := sys.ParseConstraint(c.Text)
		if err != nil {
			o.Err = err.Error()
			if e := w.Write(&o); e != nil {
				return e
			}
			continue
		}
		o.Ok = true
		cons[c.ID] = con
		if c.Pair {
			pairIDs = append(pairIDs, c.ID)
		}
		o.M = matchIdx(vs, con.MatchVersion)
		for i, u := range uni {
			if con.Match(u.Text) {
				o.MStr = append(o.MStr, i+1)
			}
		}
		o.P = matchIdx(vs, con.MatchVersionPrerelease)
		set := con.Set()
		o.Set = set.String()
		o.Empty = set.Empty()
		if c2, err := sys.ParseSetConstraint(o.Set); err == nil {
			o.RtOk = true
			o.Set2 = c2.Set().String()
			o.P2 = matchIdx(vs, c2.MatchVersionPrerelease)
			o.M2 = matchIdx(vs, c2.MatchVersion)
		}
		if e := w.Write(&o); e != nil {
			return e
		}
	}
	for _, a := range pairIDs {
		for _, b := range pairIDs {
			// Fresh operands for every operation: Union/Intersect overwrite the receiver and
			// canon sorts in place.
			ca, _ := sys.ParseConstraint(cons[a].String())
			cb, _ := sys.ParseConstraint(cons[b].String())
			if ca == nil || cb == nil {
				return fmt.Errorf("constraint does not re-parse from String(): %q / %q", cons[a].String(), cons[b].String())
			}
			o := pairObs{Kind: "pair", A: a, B: b, MU: []int{}, PU: []int{}, MI: []int{}, PI: []int{}}
			sb := cb.Set()
			bBefore := sb.String()
			u := ca.Set()
			if err := u.Union(sb); err == nil {
				o.UOk = true
				o.UText = u.String()
				o.MU = matchIdx(vs, u.MatchVersion)
				o.UEmpty = u.Empty()
				if cu, err := sys.ParseSetConstraint(o.UText); err == nil {
					o.PU = matchIdx(vs, cu.MatchVersionPrerelease)
				} else {
					o.UOk = false
				}
			}
			ca2, _ := sys.ParseConstraint(cons[a].String())
			cb2, _ := sys.ParseConstraint(cons[b].String())
			sb2 := cb2.Set()
			in := ca2.Set()
			if err := in.Intersect(sb2); err == nil {
				o.IOk = true
				o.IText = in.String()
				o.MI = matchIdx(vs, in.MatchVersion)
				o.IEmpty = in.Empty()
				if ci, err := sys.ParseSetConstraint(o.IText); err == nil {
					o.PI = matchIdx(vs, ci.MatchVersionPrerelease)
				} else {
					o.IOk = false
				}
			}
			o.Intact = sb.String() == bBefore && sb2.String() == bBefore
			if e := w.Write(&o); e != nil {
				return e
			}
		}
	}
	return nil
}
