package main

import (
	"context"
	"encoding/json"
	"fmt"
	"strings"

	pypiutil "deps.dev/util/pypi"
	"deps.dev/util/resolve"
	"deps.dev/util/resolve/dep"
	"deps.dev/util/resolve/pypi"
	"deps.dev/util/resolve/version"
)

func init() { commands["pep508"] = cmdPep508 }

type p508Case struct {
	Kind   string          `json:"kind"`
	Text   string          `json:"text"`
	Extras []string        `json:"extras"`
	Expect json.RawMessage `json:"expect"`
	Ast    json.RawMessage `json:"ast"`
}
type p508Obs struct {
	Kind     string          `json:"kind"`
	Text     string          `json:"text"`
	Expect   json.RawMessage `json:"expect"`
	Ast      json.RawMessage `json:"ast"`
	Ok       bool            `json:"ok"`
	Err      string          `json:"err"`
	Name     string          `json:"name"`
	Name2    string          `json:"name2"`
	Extras   []string        `json:"extras"`
	Spec     []string        `json:"spec"`
	Marker   string          `json:"marker"`
	Followed bool            `json:"followed"`
}

func splitTrim(s, sep string) []string {
	out := []string{}
	for _, x := range strings.Split(s, sep) {
		x = strings.Join(strings.Fields(x), "")
		if x != "" {
			out = append(out, x)
		}
	}
	return out
}

// markerFollowed builds root -> mid[extras] -> leaf ; marker and reports whether the real resolver follows the guarded edge.
func markerFollowed(marker string, extras []string) (bool, error) {
	lc := resolve.NewLocalClient()
	mk := func(n, v string, t resolve.VersionType) resolve.VersionKey {
		return resolve.VersionKey{PackageKey: resolve.PackageKey{System: resolve.PyPI, Name: n}, VersionType: t, Version: v}
	}
	lc.AddVersion(resolve.Version{VersionKey: mk("leaf", "1.0", resolve.Concrete), AttrSet: version.AttrSet{}}, nil)
	var guarded dep.Type
	guarded.AddAttr(dep.Environment, marker)
	lc.AddVersion(resolve.Version{VersionKey: mk("mid", "1.0", resolve.Concrete)}, []resolve.RequirementVersion{{VersionKey: mk("leaf", ">=1.0", resolve.Requirement), Type: guarded}})
	var want dep.Type
	if len(extras) > 0 {
		want.AddAttr(dep.EnabledDependencies, strings.Join(extras, ","))
	}
	lc.AddVersion(resolve.Version{VersionKey: mk("root", "1.0", resolve.Concrete)}, []resolve.RequirementVersion{{VersionKey: mk("mid", ">=1.0", resolve.Requirement), Type: want}})
	g, err := pypi.NewResolver(lc).Resolve(context.Background(), mk("root", "1.0", resolve.Concrete))
	if err != nil {
		return false, err
	}
	if g.Error != "" {
		return false, fmt.Errorf("graph error: %s", g.Error)
	}
	for _, e := range g.Edges {
		if g.Nodes[e.From].Version.Name == "mid" && g.Nodes[e.To].Version.Name == "leaf" {
			return true, nil
		}
	}
	return false, nil
}

// cmdPep508: vh pep508 <cases.ndjson> <obs.ndjson>
func cmdPep508(args []string) error {
	if len(args) < 2 {
		return fmt.Errorf("usage: pep508 cases obs")
	}
	cases, err := readNDJSON[p508Case](args[0])
	if err != nil {
		return err
	}
	w, err := newNDWriter(args[1])
	if err != nil {
		return err
	}
	defer w.Close()
	for _, c := range cases {
		o := p508Obs{Kind: c.Kind, Text: c.Text, Expect: c.Expect, Ast: c.Ast, Extras: []string{}, Spec: []string{}}
		if c.Ast == nil {
			o.Ast = json.RawMessage("0")
		}
		if c.Kind == "req" {
			d, err := pypiutil.ParseDependency(c.Text)
			if err != nil {
				o.Err = err.Error()
			} else {
				o.Ok = true
				o.Name = d.Name
				o.Name2 = pypiutil.CanonPackageName(d.Name)
				o.Extras = splitTrim(d.Extras, ",")
				o.Spec = splitTrim(d.Constraint, ",")
				o.Marker = strings.Join(strings.Fields(d.Environment), " ")
			}
		} else {
			o.Extras = c.Extras
			if o.Extras == nil {
				o.Extras = []string{}
			}
			f, err := markerFollowed(c.Text, c.Extras)
			if err != nil {
				o.Err = err.Error()
			} else {
				o.Ok = true
				o.Followed = f
			}
		}
		if err := w.Write(&o); err != nil {
			return err
		}
	}
	return nil
}
