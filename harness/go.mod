module deps.dev/util/resolve/verifh

go 1.23.4

replace (
	deps.dev/api/v3 => /repo/api/v3
	deps.dev/api/v3alpha => /repo/api/v3alpha
	deps.dev/util/maven => /repo/util/maven
	deps.dev/util/pypi => /repo/util/pypi
	deps.dev/util/resolve => /repo/util/resolve
	deps.dev/util/semver => /repo/util/semver
)

require (
	deps.dev/api/v3 v3.0.0
	deps.dev/api/v3alpha v0.0.0
	deps.dev/util/maven v0.0.0
	deps.dev/util/pypi v0.0.0
	deps.dev/util/resolve v0.0.0
	deps.dev/util/semver v0.0.0
	google.golang.org/genproto v0.0.0-20230410155749-daa745c078e1
	google.golang.org/grpc v1.71.1
	google.golang.org/protobuf v1.36.6
)

require (
	golang.org/x/net v0.38.0 // indirect
	golang.org/x/sys v0.31.0 // indirect
	golang.org/x/text v0.23.0 // indirect
)
