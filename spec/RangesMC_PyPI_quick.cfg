CONSTANTS
  Tier = "quick"
  SysName = "PyPI"
INIT Init
NEXT Next
INVARIANT Emit
