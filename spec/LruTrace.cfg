CONSTANTS
  Keys = {}
  Vals = {}
  Sizes = {}
  MaxOps = 0
INIT Init2
NEXT Next2
INVARIANT Emit
CHECK_DEADLOCK FALSE
