CONSTANTS Family = "small"
SPECIFICATION Spec
INVARIANTS OneNamePerDirectory DoneValid Emit
PROPERTY EventuallyStops
