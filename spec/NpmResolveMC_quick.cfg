CONSTANTS Family = "small"
INIT Init
NEXT Next
INVARIANTS OneNamePerDirectory DoneValid Emit
