--------------------------- MODULE VersionDomain ---------------------------
(* Abstract syntax of version strings for the nine systems, printers to concrete text,  *)
(* and the bounded domains D(sys, tier) that TLC enumerates completely.                 *)
(* A domain element is a record                                                         *)
(*   [sys, text, base, ref, kind, key, normal, rel]                                     *)
(* text   : the concrete string handed to System.Parse                                  *)
(* base   : text without build metadata (C01: build never changes the result)           *)
(* ref    : the ecosystem's reference tool accepts text and key is its ordering key     *)
(* normal : text is in the reference tool's normalised form (C02: must be accepted)     *)
(* rel    : release-only (RubyGems: no prerelease segment; C10 domain)                  *)
EXTENDS Integers, Sequences, FiniteSets, TLC, Order

CONSTANT Tier            \* "quick" | "thorough"

\* Concretisation (DESIGN 3.1): the models only compare numerals and identifier ranks, so the
\* printers emit TEMPLATES in which atoms are placeholders: {Nn} version number n, {In} numeric
\* identifier n, {Si} the i-th alphanumeric identifier of an ASCII-sorted pool.  The orchestrator
\* instantiates every template twice: with the identity tables ({N3} -> "3", {S6} -> "alpha", the
\* pool below) and with seeded tables (strictly increasing numerals beyond 2^32, random
\* identifiers with the same order and case structure); it re-checks the order claims of the
\* seeded pool against real byte order.  {N0} and {I0} are always "0".
NumT(n) == "{N" \o ToString(n) \o "}"
IdT(n) == "{I" \o ToString(n) \o "}"

RECURSIVE JoinStr(_, _)
JoinStr(s, sep) == IF s = <<>> THEN "" ELSE IF Len(s) = 1 THEN s[1] ELSE s[1] \o sep \o JoinStr(Tail(s), sep)
NumsText(nums) == JoinStr([i \in 1..Len(nums) |-> NumT(nums[i])], ".")
IdsText(ids) == JoinStr([i \in 1..Len(ids) |-> ids[i].t], ".")
SeqsUpTo(S, n) == UNION {[1..k -> S] : k \in 0..n}

(* ------------------------------------------------------------ identifiers *)
\* ASCII-sorted pool of alphanumeric identifiers; rank = position.  The harness re-checks the
\* claimed order of this table against the real byte order (table check), since TLC cannot.
\* identity pool: <<"-", "0a", "A", "Rc", "a", "alpha", "alpha-1", "beta", "rc", "x">>
AlnumCount == 10
\* rank of the lower-cased text among the lower-cased texts (NuGet compares case-insensitively)
AlnumLowerRank == <<1, 2, 3, 7, 3, 4, 5, 6, 7, 8>>
IdS(i) == [k |-> "s", n |-> 0, r |-> i, t |-> "{S" \o ToString(i) \o "}"]
IdN(n) == [k |-> "n", n |-> n, r |-> 0, t |-> IdT(n)]
NumIds == {IdN(n) : n \in {0, 1, 2, 10}}
AlnumIds == {IdS(i) : i \in 1..AlnumCount}
LowerId(id) == IF id.k = "s" THEN [id EXCEPT !.r = AlnumLowerRank[id.r]] ELSE id

PreSetQuick == { <<>>, <<IdN(0)>>, <<IdN(1)>>, <<IdN(10)>>, <<IdS(6)>>, <<IdS(6), IdN(1)>>,
                 <<IdS(6), IdN(10)>>, <<IdS(6), IdS(8)>>, <<IdN(1), IdS(6)>>, <<IdS(3)>>, <<IdS(9)>>,
                 <<IdS(1)>>, <<IdS(7)>>, <<IdS(2)>>, <<IdS(4)>>, <<IdS(5)>>, <<IdS(6), IdN(1), IdN(0)>> }
PreSetThorough == SeqsUpTo(NumIds \cup AlnumIds, 2)
                  \cup {<<IdS(6), IdN(1), x>> : x \in NumIds \cup AlnumIds}
PreSet == IF Tier = "quick" THEN PreSetQuick ELSE PreSetThorough
BuildSet == {<<>>, <<IdS(9), IdN(1)>>}
BuildsFor(p) == IF p \in {<<>>, <<IdS(6), IdN(1)>>} THEN BuildSet ELSE {<<>>}
TripleSet == IF Tier = "quick" THEN {<<0,0,0>>, <<1,0,0>>, <<1,2,3>>, <<1,10,0>>, <<2,0,0>>}
             ELSE {<<0,0,0>>, <<1,0,0>>, <<1,2,3>>, <<1,10,0>>}

SemText(prefix, nums, pre, build) ==
  prefix \o NumsText(nums) \o (IF pre = <<>> THEN "" ELSE "-" \o IdsText(pre))
         \o (IF build = <<>> THEN "" ELSE "+" \o IdsText(build))

\* strict SemVer 2.0 strings: the C02 domain for npm / Cargo / Go
StrictSemVer(sys, prefix) ==
  UNION { { [sys |-> sys, text |-> SemText(prefix, n, p, b), base |-> SemText(prefix, n, p, <<>>),
     ref |-> TRUE, kind |-> "semver", key |-> [nums |-> n, pre |-> p],
     normal |-> (b = <<>>), rel |-> (p = <<>>), lawful |-> TRUE]
    : n \in TripleSet, b \in BuildsFor(p) } : p \in PreSet }

\* deps.dev-permissive spellings without a reference meaning (C01 / C10 / C04 domains only)
Extra(sys, texts) == { [sys |-> sys, text |-> t, base |-> t, ref |-> FALSE, kind |-> "none",
                        key |-> [nums |-> <<>>, pre |-> <<>>], normal |-> FALSE, rel |-> FALSE, lawful |-> TRUE] : t \in texts }
ShortForms == {"0", "1", "1.0", "1.2", "2", "1-alpha", "1.0-alpha", "1.2-1", "1+x", "1.0.0-01", "1.0.0-00", "10.0.0"}

DDefault == { [d EXCEPT !.ref = FALSE, !.normal = FALSE] : d \in StrictSemVer("Default", "") } \cup Extra("Default", ShortForms)
DCargo == StrictSemVer("Cargo", "") \cup Extra("Cargo", ShortForms)
DNPM == StrictSemVer("NPM", "")
        \cup Extra("NPM", ShortForms \cup {"v1.2.3", "vv1.2.3", "v1", "01.2.3", "1.02.3-01", "1.0.0-01a", "v1.0.0-alpha+x"})
DGo == StrictSemVer("Go", "v") \cup Extra("Go", {"v0", "v1", "v1.0", "v1.2", "v2", "v10.0.0"})
DComposer == { [d EXCEPT !.ref = FALSE, !.normal = FALSE] : d \in StrictSemVer("Composer", "") }
             \cup Extra("Composer", ShortForms \cup {"v1.2.3", "V1.2.3", "1.2.3.4", "01.2.3", "1.0.0.0", "1.0.0.1-alpha"})

(* ------------------------------------------------------------------ NuGet *)
\* SemVer2 + optional 4th number (a trailing .0 revision is insignificant), identifiers compared
\* case-insensitively, 1-2 numbers allowed (missing = 0).
NuGetNums == IF Tier = "quick" THEN {<<1,0,0>>, <<1,2,3>>, <<1,0,0,0>>, <<1,0,0,1>>, <<1,0>>, <<1>>, <<2,0,0>>, <<1,2,3,4>>}
             ELSE {<<1,0,0>>, <<1,2,3>>, <<1,0,0,0>>, <<1,0,0,1>>, <<1,0>>, <<1>>, <<2,0,0>>, <<1,2,3,4>>}
NuGetPre == IF Tier = "quick" THEN PreSetQuick ELSE PreSetQuick \cup SeqsUpTo(NumIds \cup AlnumIds, 1) \cup {<<IdS(i), IdS(j)>> : i \in {3, 4, 5, 9}, j \in {3, 4, 5, 9}}
DNuGet ==
  UNION { { [sys |-> "NuGet", text |-> SemText("", n, p, b), base |-> SemText("", n, p, <<>>), ref |-> TRUE,
     kind |-> "semver", key |-> [nums |-> n, pre |-> [i \in 1..Len(p) |-> LowerId(p[i])]],
     normal |-> (b = <<>> /\ Len(n) >= 3 /\ (Len(n) = 3 \/ n[4] # 0)),
     rel |-> (p = <<>>), lawful |-> TRUE]
    : n \in NuGetNums, b \in BuildsFor(p) } : p \in NuGetPre }

(* ------------------------------------------------------------------- PyPI *)
\* PEP 440.  Semantic value [epoch, rel, pre, post, dev, local] x spelling variant sp.
LocalTexts == <<"1", "abc", "abc.1", "1.abc", "abd", "2", "10", "abc.10", "abc.9", "01", "010", "02", "abc.1.2">>     \* the last three: numeric segments with leading zeros (compared as integers)
\* alternative spellings of the separators inside a local version (PEP 440 normalises - and _ to .); the last one mixes both
LocalAlt1 == <<"1", "abc", "abc-1", "1-abc", "abd", "2", "10", "abc-10", "abc-9", "01", "010", "02", "abc-1_2">>
LocalAlt2 == <<"1", "abc", "abc_1", "1_abc", "abd", "2", "10", "abc_10", "abc_9", "01", "010", "02", "abc_1-2">>
LocalSpelled(loc, sp) == IF sp = 1 THEN LocalAlt1[loc] ELSE IF sp = 2 THEN LocalAlt2[loc] ELSE LocalTexts[loc]
\* local segments: alphabetic ranks abc=1 < abd=2
LocalKey(i) == CASE i = 0 -> <<>>
  [] i = 1 -> <<[k |-> "n", n |-> 1, r |-> 0]>>
  [] i = 2 -> <<[k |-> "s", n |-> 0, r |-> 1]>>
  [] i = 3 -> <<[k |-> "s", n |-> 0, r |-> 1], [k |-> "n", n |-> 1, r |-> 0]>>
  [] i = 4 -> <<[k |-> "n", n |-> 1, r |-> 0], [k |-> "s", n |-> 0, r |-> 1]>>
  [] i = 5 -> <<[k |-> "s", n |-> 0, r |-> 2]>>
  [] i = 6 -> <<[k |-> "n", n |-> 2, r |-> 0]>>
  [] i = 7 -> <<[k |-> "n", n |-> 10, r |-> 0]>>
  [] i = 8 -> <<[k |-> "s", n |-> 0, r |-> 1], [k |-> "n", n |-> 10, r |-> 0]>>
  [] i = 9 -> <<[k |-> "s", n |-> 0, r |-> 1], [k |-> "n", n |-> 9, r |-> 0]>>
  [] i = 10 -> <<[k |-> "n", n |-> 1, r |-> 0]>>
  [] i = 11 -> <<[k |-> "n", n |-> 10, r |-> 0]>>
  [] i = 12 -> <<[k |-> "n", n |-> 2, r |-> 0]>>
  [] i = 13 -> <<[k |-> "s", n |-> 0, r |-> 1], [k |-> "n", n |-> 1, r |-> 0], [k |-> "n", n |-> 2, r |-> 0]>>
PhaseText(ph, sp) == CASE ph = 1 -> (IF sp = 0 THEN "a" ELSE IF sp = 1 THEN "alpha" ELSE "A")
                       [] ph = 2 -> (IF sp = 0 THEN "b" ELSE IF sp = 1 THEN "beta" ELSE "B")
                       [] ph = 3 -> (IF sp = 0 THEN "rc" ELSE IF sp = 1 THEN "c" ELSE "pre")
\* sp = 0 : normalised spelling ; sp = 1, 2 : alternative spellings that PEP 440 normalises
PyText(e, rel, pre, post, dev, loc, sp) ==
  (IF e = 0 THEN (IF sp = 2 THEN "0!" ELSE "") ELSE ToString(e) \o "!")
  \o (IF sp = 1 THEN "v" ELSE "") \o NumsText(rel)
  \o (IF pre = <<>> THEN "" ELSE (IF sp = 1 THEN "-" ELSE IF sp = 2 THEN "." ELSE "") \o PhaseText(pre[1], sp)
        \o (IF sp = 2 THEN "_" ELSE "") \o (IF sp = 1 /\ pre[2] = 0 /\ post = -1 THEN "" ELSE IdT(pre[2])))
  \o (IF post = -1 THEN "" ELSE IF sp = 0 THEN ".post" \o IdT(post)
        ELSE IF sp = 1 THEN "-" \o IdT(post) ELSE "_rev" \o (IF post = 0 THEN "" ELSE "." \o IdT(post)))
  \o (IF dev = -1 THEN "" ELSE IF sp = 0 THEN ".dev" \o IdT(dev)
        ELSE IF sp = 1 THEN "dev" \o (IF dev = 0 THEN "" ELSE IdT(dev)) ELSE "-DEV-" \o IdT(dev))
  \o (IF loc = 0 THEN "" ELSE "+" \o LocalSpelled(loc, sp))
PyRec(e, rel, pre, post, dev, loc, sp) ==
  [sys |-> "PyPI", text |-> PyText(e, rel, pre, post, dev, loc, sp), base |-> PyText(e, rel, pre, post, dev, loc, sp),
   ref |-> TRUE, kind |-> "pep440",
   key |-> [epoch |-> e, rel |-> rel, pre |-> pre, post |-> post, dev |-> dev, local |-> LocalKey(loc)],
   normal |-> (sp = 0), rel |-> (pre = <<>> /\ dev = -1), lawful |-> TRUE]
PyPre == {<<>>, <<1, 0>>, <<1, 1>>, <<2, 0>>, <<3, 1>>}
PySemQuick ==
  {<<0, <<1, 0>>, p, po, d, l>> : p \in PyPre, po \in {-1, 0, 1}, d \in {-1, 0, 1}, l \in {0, 2}}
  \cup {<<0, <<1, 0>>, <<>>, -1, -1, l>> : l \in 1..13}
  \cup {<<0, <<1, 0>>, <<1, 1>>, 0, 1, l>> : l \in {1, 3}}
  \cup {<<e, r, <<>>, -1, -1, 0>> : e \in {0, 1}, r \in {<<1>>, <<1, 0, 0>>, <<1, 0, 1>>, <<1, 1>>, <<0, 9>>, <<1, 0, 0, 0>>, <<1, 0, 0, 1>>, <<2>>}}
  \cup {<<1, <<0, 9>>, <<2, 0>>, -1, 0, 0>>}
PySemThorough ==
  {<<e, r, p, po, d, l>> : e \in {0, 1}, r \in {<<1, 0>>, <<1, 0, 1>>, <<1, 1>>}, p \in PyPre,
                           po \in {-1, 0, 1}, d \in {-1, 0, 1}, l \in {0, 1, 2}}
  \cup PySemQuick
PySem == IF Tier = "quick" THEN PySemQuick ELSE PySemThorough
DPyPI == {PyRec(s[1], s[2], s[3], s[4], s[5], s[6], 0) : s \in PySem}
         \cup {PyRec(s[1], s[2], s[3], s[4], s[5], s[6], sp) :
                 s \in {t \in PySemQuick : t[6] \in {0, 2} /\ (t[4] # 1 \/ t[5] # 1)}, sp \in {1, 2}}
         \cup {PyRec(0, <<1, 0>>, <<>>, -1, -1, l, sp) : l \in {3, 4, 8, 13}, sp \in {1, 2}}

(* --------------------------------------------------------------- RubyGems *)
\* Gem::Version grammar: [0-9]+(\.[0-9a-zA-Z]+)*(-[0-9A-Za-z-]+(\.[0-9A-Za-z-]+)*)?
\* AST: sequence of dotted components; a component is a sequence of runs (digits / letters);
\* dash = index of the component introduced by "-" instead of "." (0: none).
GemLetters == <<"a", "b", "pre", "rc", "x">>      \* ASCII-sorted lower-case letter runs
GN(n) == [k |-> "n", n |-> n, r |-> 0, t |-> NumT(n)]
GS(i) == [k |-> "s", n |-> 0, r |-> i, t |-> GemLetters[i]]
RECURSIVE GemCompText(_)
GemCompText(c) == IF c = <<>> THEN "" ELSE c[1].t \o GemCompText(Tail(c))
RECURSIVE GemTextFrom(_, _, _)
GemTextFrom(cs, i, dash) ==
  IF i > Len(cs) THEN ""
  ELSE (IF i = 1 THEN "" ELSE IF i = dash THEN "-" ELSE ".") \o GemCompText(cs[i]) \o GemTextFrom(cs, i + 1, dash)
RECURSIVE Flatten(_)
Flatten(cs) == IF cs = <<>> THEN <<>> ELSE cs[1] \o Flatten(Tail(cs))
GemSegs(cs, dash) ==    \* "-" becomes ".pre." before scanning
  IF dash = 0 THEN Flatten(cs)
  ELSE Flatten(SubSeq(cs, 1, dash - 1)) \o <<[k |-> "s", n |-> 0, r |-> 3, t |-> "pre"]>> \o Flatten(SubSeq(cs, dash, Len(cs)))
StripT(segs) == [i \in 1..Len(segs) |-> [k |-> segs[i].k, n |-> segs[i].n, r |-> segs[i].r]]
GemRec(cs, dash) ==
  LET segs == StripT(GemSegs(cs, dash)) IN
  [sys |-> "RubyGems", text |-> GemTextFrom(cs, 1, dash), base |-> GemTextFrom(cs, 1, dash), ref |-> TRUE,
   kind |-> "gem", key |-> [segs |-> segs], normal |-> (dash = 0),
   rel |-> ~(\E i \in 1..Len(segs) : segs[i].k = "s"), lawful |-> TRUE]
GemNumComps == {<<GN(0)>>, <<GN(1)>>, <<GN(2)>>, <<GN(10)>>}
GemTailComps == {<<GS(1)>>, <<GS(2)>>, <<GS(4)>>, <<GS(3)>>, <<GS(2), GN(5)>>, <<GN(0)>>, <<GN(1)>>, <<GS(1), GN(0)>>, <<GN(3), GS(2), GN(5)>>}
GemPrefixes == IF Tier = "quick" THEN {<<<<GN(1)>>>>, <<<<GN(1)>>, <<GN(0)>>>>, <<<<GN(1)>>, <<GN(2)>>, <<GN(3)>>>>, <<<<GN(1)>>, <<GN(0)>>, <<GN(0)>>, <<GN(0)>>>>,
                                       <<<<GN(1)>>, <<GN(2)>>, <<GN(3)>>, <<GN(4)>>>>, <<<<GN(2)>>>>, <<<<GN(1)>>, <<GN(10)>>>>, <<<<GN(0)>>>>}
               ELSE {<<<<GN(1)>>>>, <<<<GN(1)>>, <<GN(0)>>>>, <<<<GN(1)>>, <<GN(2)>>, <<GN(3)>>>>, <<<<GN(1)>>, <<GN(0)>>, <<GN(0)>>, <<GN(0)>>>>,
                     <<<<GN(1)>>, <<GN(2)>>, <<GN(3)>>, <<GN(4)>>>>, <<<<GN(1)>>, <<GN(10)>>>>}
GemTails == IF Tier = "quick" THEN SeqsUpTo(GemTailComps, 1) \cup {<<<<GS(1)>>, <<GN(0)>>, <<GS(2)>>>>, <<<<GS(1)>>, <<GN(0)>>>>, <<<<GS(1)>>, <<GN(1)>>>>, <<<<GS(2)>>, <<GS(1)>>>>, <<<<GS(1)>>, <<GN(0)>>, <<GN(0)>>>>}
            ELSE SeqsUpTo(GemTailComps, 2) \cup {<<<<GS(1)>>, <<GN(0)>>, <<GS(2)>>>>, <<<<GS(1)>>, <<GN(0)>>, <<GN(0)>>>>}
DRubyGems ==
  {GemRec(p \o t, 0) : p \in GemPrefixes, t \in GemTails}
  \cup {GemRec(p \o t, Len(p) + 1) : p \in {q \in GemPrefixes : Len(q) <= 3}, t \in {u \in GemTails : u # <<>> /\ Len(u) <= 2}}

(* ------------------------------------------------------------------ Maven *)
\* Domain of the property: dotted numeric prefix, optionally one qualifier token, optionally a
\* number, optionally -SNAPSHOT (DESIGN 6.4).  Unknown qualifiers "foo" < "x" (ranks 1, 2).
MavenQuals == <<"alpha", "beta", "milestone", "rc", "cr", "snapshot", "ga", "final", "release", "sp", "a", "b", "m", "foo", "x">>
MavenQRank(q) == IF q = "foo" THEN 3 ELSE IF q = "x" THEN 5 ELSE IF q = "a" THEN 1 ELSE IF q = "b" THEN 2 ELSE IF q = "m" THEN 4 ELSE 0
MavenQSpell(q, up) == IF ~up THEN q ELSE
  CASE q = "alpha" -> "ALPHA" [] q = "rc" -> "RC" [] q = "ga" -> "GA" [] q = "final" -> "Final" [] q = "sp" -> "SP"
    [] q = "snapshot" -> "SNAPSHOT" [] q = "foo" -> "Foo" [] OTHER -> q
MavenText(a) ==
  NumsText(a.nums)
  \o (IF a.sq = "none" THEN "" ELSE a.sq \o MavenQSpell(a.q, a.up)
        \o (IF a.sn = "none" THEN "" ELSE a.sn \o NumT(a.m)))
  \o (IF a.snap THEN "-SNAPSHOT" ELSE "")
MavenAst(nums, sq, q, sn, m, snap, up) ==
  [nums |-> nums, sq |-> sq, q |-> q, qr |-> MavenQRank(q), sn |-> sn, m |-> m, snap |-> snap, up |-> up]
\* excluded from C02 (DESIGN 6.4): qualifier introduced by "." (3.8.6 vs 3.8.7), release-equivalent
\* qualifier followed by a number (property text).
MavenRef(a) == ~(a.sq = ".") /\ ~(a.q \in {"ga", "final", "release"} /\ a.sn # "none")
\* Maven's own comparator is not transitive when a release-equivalent qualifier is followed by
\* something (1 < 1-sp < 1-ga-SNAPSHOT < 1): the model laws are asserted on the rest.
MavenLawful(a) == ~(a.sq # "none" /\ a.q \in {"ga", "final", "release"} /\ (a.snap \/ a.sn # "none"))
MavenRec(a) ==
  [sys |-> "Maven", text |-> MavenText(a), base |-> MavenText(a), ref |-> MavenRef(a), kind |-> "maven",
   key |-> [items |-> MavenItems(a)], lawful |-> (MavenRef(a) /\ MavenLawful(a)), normal |-> (a.sq \in {"none", "-"} /\ ~a.up /\ a.sn \in {"none", "-"}),
   rel |-> (a.sq = "none" /\ ~a.snap)]
MavenNumsSet == IF Tier = "quick" THEN {<<1>>, <<1, 0>>, <<1, 0, 0>>, <<1, 1>>, <<1, 0, 1>>, <<10>>, <<0>>}
                ELSE {<<1>>, <<1, 0>>, <<1, 0, 0>>, <<1, 1>>, <<1, 0, 1>>, <<10>>, <<0>>, <<2>>, <<1, 0, 0, 0>>, <<1, 2, 3, 4>>, <<0, 1>>}
MavenQSet == IF Tier = "quick" THEN {"alpha", "rc", "cr", "snapshot", "ga", "sp", "a", "foo", "x", "milestone"}
             ELSE {MavenQuals[i] : i \in 1..Len(MavenQuals)}
DMaven ==
  {MavenRec(MavenAst(n, "none", "", "none", 0, s, FALSE)) : n \in MavenNumsSet, s \in BOOLEAN}
  \cup UNION { {MavenRec(MavenAst(n, sq, q, sn, m, s, FALSE)) :
          n \in (IF Tier = "quick" THEN {<<1>>, <<1, 0>>, <<1, 1>>} ELSE {<<1>>, <<1, 0>>, <<1, 1>>}),
          sq \in {"-", ".", ""}, q \in MavenQSet,
          m \in (IF sn = "none" THEN {0} ELSE IF Tier = "quick" THEN {1} ELSE {0, 1}),
          s \in (IF sn # "none" /\ Tier = "quick" THEN {FALSE} ELSE BOOLEAN)}
        : sn \in (IF Tier = "quick" THEN {"none", "", "-"} ELSE {"none", "", "-", "."}) }
  \cup {MavenRec(MavenAst(<<1>>, "-", q, sn, 1, FALSE, TRUE)) : q \in {"alpha", "rc", "ga", "final", "sp", "foo"}, sn \in {"none", "-"}}

(* ------------------------------------------------------------------ all *)
Systems == <<"Default", "Cargo", "Go", "Maven", "NPM", "NuGet", "PyPI", "RubyGems", "Composer">>
D(sys) == CASE sys = "Default" -> DDefault [] sys = "Cargo" -> DCargo [] sys = "Go" -> DGo
            [] sys = "Maven" -> DMaven [] sys = "NPM" -> DNPM [] sys = "NuGet" -> DNuGet
            [] sys = "PyPI" -> DPyPI [] sys = "RubyGems" -> DRubyGems [] sys = "Composer" -> DComposer
=============================================================================
