CONSTANTS
  Tier = "quick"
  SysName = "Go"
INIT Init
NEXT Next
INVARIANT Emit
