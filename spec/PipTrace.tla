------------------------------ MODULE PipTrace ------------------------------
EXTENDS PipModel, Json, IOUtils, CSV
Obs == TLCEval(ndJsonDeserialize(IOEnv.VERIF_OBS))
RejFile == IOEnv.VERIF_REJ
VARIABLE row
Init == row = 0
Next == row = 0 /\ row' \in 1..Len(Obs)
\* records replayed from PipResolveMC carry what the algorithm model PipResolve.tla returns (graph-level error, or nodes in
\* mapping order and the set of edges): the real resolver must return the same.  A difference is information (the verdict on
\* C08 is always the laws on the REAL graph): it says that PipResolve.tla no longer describes the code.
HasModel(o) == "model" \in DOMAIN o
AsSet(s) == {s[i] : i \in 1..Len(s)}
ModelDiff(o) == IF ~HasModel(o) THEN {}
                ELSE IF o.model.gerr # (~o.ok) THEN {"info-graph-level-error-differs-from-algorithm-model"}
                ELSE IF o.ok /\ (o.graph.nodes # o.model.nodes \/ AsSet(o.graph.edges) # AsSet(o.model.edges)) THEN {"info-graph-differs-from-algorithm-model"}
                ELSE {}
\* The stale-criteria deviations (recorded finding C08-F24) need a pin that was replaced in place (design-level statement
\* PipResolve!DoneLawsNoRepin: without one, every criterion holds requirements of versions that are still pinned and
\* reachable).  The harness reports whether the real resolution replaced a pin; the same symptom without one is not that
\* finding and is reported under another name.
StaleNames == {"prerelease-admitted-by-requirement-of-an-abandoned-version", "edge-from-extra-guarded-requirement-enabled-by-an-abandoned-version"}
Repinned(o) == IF "repinned" \in DOMAIN o THEN o.repinned ELSE TRUE
LawName(x, o) == IF x[1] \in StaleNames /\ ~Repinned(o) THEN x[1] \o "-although-no-pin-was-replaced" ELSE x[1]
LawsOK(o) == o.ok => /\ \A x \in PipViolations(o.universe, o.root, o.graph) : CSVWrite("%1$s", <<ToJson([law |-> LawName(x, o), n |-> row, k |-> x[2]])>>, RejFile)
                     /\ \A i \in UndeclaredEdges(o.universe, o.graph) : CSVWrite("%1$s", <<ToJson([law |-> "info-undeclared-edge", n |-> row, k |-> i])>>, RejFile)
ModelOK(o) == \A l \in ModelDiff(o) : CSVWrite("%1$s", <<ToJson([law |-> l, n |-> row, k |-> 0])>>, RejFile)
Emit == row = 0 \/ (LawsOK(Obs[row]) /\ ModelOK(Obs[row]))
ASSUME CSVWrite("%1$s", <<ToJson([law |-> "stats", n |-> Len(Obs), k |-> 0])>>, RejFile)
=============================================================================
