------------------------------ MODULE PipTrace ------------------------------
EXTENDS PipModel, Json, IOUtils, CSV
Obs == TLCEval(ndJsonDeserialize(IOEnv.VERIF_OBS))
RejFile == IOEnv.VERIF_REJ
VARIABLE row
Init == row = 0
Next == row = 0 /\ row' \in 1..Len(Obs)
Emit == row = 0 \/ (Obs[row].ok =>
          /\ \A x \in PipViolations(Obs[row].universe, Obs[row].root, Obs[row].graph) :
               CSVWrite("%1$s", <<ToJson([law |-> x[1], n |-> row, k |-> x[2]])>>, RejFile)
          /\ \A i \in UndeclaredEdges(Obs[row].universe, Obs[row].graph) :
               CSVWrite("%1$s", <<ToJson([law |-> "info-undeclared-edge", n |-> row, k |-> i])>>, RejFile))
ASSUME CSVWrite("%1$s", <<ToJson([law |-> "stats", n |-> Len(Obs), k |-> 0])>>, RejFile)
=============================================================================
