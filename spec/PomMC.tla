-------------------------------- MODULE PomMC --------------------------------
(* Enumerates a family of POM lineages (project, up to two ancestors, one imported BOM,      *)
(* profiles with every activation kind, chained / overriding properties, built-ins, managed   *)
(* and duplicate declarations) with the effective dependencies Maven computes (Pom.tla), and    *)
(* ALL property tables over three names for the interpolation-termination clause.               *)
EXTENDS Pom, Json, IOUtils, CSV
CONSTANT Big
OutFile == IOEnv.VERIF_OUT
Dep(g, a, v, typ, cls, scope, opt, excl) == [g |-> g, a |-> a, v |-> v, typ |-> typ, cls |-> cls, scope |-> scope, opt |-> opt, excl |-> excl]
P(n, val) == [n |-> n, val |-> val]
NoAct == [kind |-> "none", nums |-> <<>>, lo |-> <<>>, hi |-> <<>>, hiIncl |-> FALSE, field |-> "", val |-> "", text |-> ""]
Acts == { [NoAct EXCEPT !.kind = "default"], [NoAct EXCEPT !.kind = "jdk", !.nums = <<11>>, !.text = "11"], [NoAct EXCEPT !.kind = "jdk", !.nums = <<1, 8>>, !.text = "1.8"],
          [NoAct EXCEPT !.kind = "jdkrange", !.lo = <<9>>, !.hi = <<12>>, !.text = "[9,12)"], [NoAct EXCEPT !.kind = "jdkrange", !.lo = <<1, 8>>, !.hi = <<9>>, !.text = "[1.8,9)"],
          [NoAct EXCEPT !.kind = "os", !.field = "family", !.val = "unix"], [NoAct EXCEPT !.kind = "os", !.field = "name", !.val = "windows"] }
PropTables == { <<>>, <<P("a", <<L("1.0")>>)>>, <<P("a", <<L("2.0")>>), P("b", <<R("a"), L("-x")>>)>>,
                <<P("a", <<R("b")>>), P("b", <<L("3.0")>>), P("c", <<R("project.version")>>)>>, <<P("version", <<L("9.9")>>), P("a", <<R("version")>>)>> }
VerTemplates == { <<L("1.0")>>, <<R("a")>>, <<R("b")>>, <<R("project.version")>>, <<R("pom.parent.version")>>, <<R("c")>>, <<>> }
\* dependency lists for the project
DepLists(vt) == { <<Dep("g", "x", vt, "", "", "", FALSE, <<>>)>>,
                  <<Dep("g", "x", vt, "", "", "test", FALSE, <<>>), Dep("g", "y", <<L("2.0")>>, "", "", "", TRUE, <<"e:e">>)>>,
                  <<Dep("g", "x", <<>>, "", "", "", FALSE, <<>>), Dep("g", "x", vt, "test-jar", "", "", FALSE, <<>>), Dep("g", "z", <<>>, "", "", "", FALSE, <<>>)>>,
                  <<Dep("g", "x", vt, "", "", "", FALSE, <<>>), Dep("g", "k", <<L("1.0")>>, "", "", "", FALSE, <<>>), Dep("g", "x", <<L("9.9")>>, "", "", "runtime", FALSE, <<>>)>> }
ParentDeps == { <<>>, <<Dep("g", "y", <<L("1.5")>>, "", "", "", FALSE, <<>>), Dep("g", "p", <<R("a")>>, "", "", "runtime", FALSE, <<>>)>> }
MgmtLists == { <<>>, <<Dep("g", "x", <<L("7.0")>>, "", "", "provided", FALSE, <<"q:q">>), Dep("g", "y", <<L("2.5")>>, "", "", "", FALSE, <<"m:m">>)>>,
               <<Dep("g", "z", <<R("a")>>, "", "", "", FALSE, <<>>), Dep("b", "bom", <<L("1.0")>>, "pom", "", "import", FALSE, <<>>)>> }
Pm(g, a, v, parent, props, deps, mgmt, profiles, gdecl, vdecl) ==
  [g |-> g, a |-> a, v |-> v, parent |-> parent, props |-> props, deps |-> deps, mgmt |-> mgmt, profiles |-> profiles, gdecl |-> gdecl, vdecl |-> vdecl]
Bom == << Pm("b", "bom", "1.0", 0, <<P("a", <<L("4.4")>>)>>, <<>>,
             <<Dep("g", "z", <<L("8.0")>>, "", "", "", FALSE, <<>>), Dep("g", "x", <<R("a")>>, "", "", "", FALSE, <<>>), Dep("g", "w", <<R("project.version")>>, "", "", "", FALSE, <<>>)>>, <<>>, "b", "1.0") >>
\* nested imports: the project imports BOMs na and nb (either order); na may import nc, nc may import nd; nb, nc (and
\* optionally na itself, and nd) manage the same keys with different versions, so the ORDER in which a BOM's own imports
\* are expanded relative to the importer's remaining imports decides the managed version
Imp(a) == Dep("n", a, <<L("1.0")>>, "pom", "", "import", FALSE, <<>>)
NBom(a, mgmt) == << Pm("n", a, "1.0", 0, <<>>, <<>>, mgmt, <<>>, "n", "1.0") >>
NestedBoms(aImpC, aOwn, cImpD, cFirst) ==
  << NBom("na", (IF aOwn THEN <<Dep("g", "x", <<L("3.0")>>, "", "", "", FALSE, <<>>)>> ELSE <<>>) \o (IF aImpC THEN <<Imp("nc")>> ELSE <<>>)
                 \o <<Dep("g", "k", <<L("3.1")>>, "", "", "", FALSE, <<>>)>>),
     NBom("nb", <<Dep("g", "x", <<L("2.0")>>, "", "", "runtime", FALSE, <<>>), Dep("g", "z", <<L("2.1")>>, "", "", "", FALSE, <<>>), Dep("g", "w", <<L("2.2")>>, "", "", "", FALSE, <<>>)>>),
     NBom("nc", (IF cImpD /\ cFirst THEN <<Imp("nd")>> ELSE <<>>) \o <<Dep("g", "x", <<L("1.0")>>, "", "", "", FALSE, <<"e:e">>), Dep("g", "z", <<L("1.1")>>, "", "", "", FALSE, <<>>)>>
                 \o (IF cImpD /\ ~cFirst THEN <<Imp("nd")>> ELSE <<>>)),
     NBom("nd", <<Dep("g", "w", <<L("4.0")>>, "", "", "", FALSE, <<>>), Dep("g", "z", <<L("4.1")>>, "", "", "", FALSE, <<>>)>>) >>
NestedLin(abOrder, ownZ) ==
  << Pm("g", "proj", "5.0", 0, <<>>,
        <<Dep("g", "x", <<>>, "", "", "", FALSE, <<>>), Dep("g", "z", <<>>, "", "", "", FALSE, <<>>), Dep("g", "w", <<>>, "", "", "", FALSE, <<>>), Dep("g", "k", <<>>, "", "", "", FALSE, <<>>)>>,
        (IF ownZ THEN <<Dep("g", "z", <<L("5.5")>>, "", "", "", FALSE, <<>>)>> ELSE <<>>) \o (IF abOrder THEN <<Imp("na"), Imp("nb")>> ELSE <<Imp("nb"), Imp("na")>>),
        <<>>, "g", "5.0") >>
VARIABLES kind, item
Init == kind = "start" /\ item = <<>>
\* one lineage of the family (project, optional parent, optional grandparent)
Lin(np, inheritV, cp, pp, cd, pd, cm, pm, prof, act) ==
  << Pm(IF inheritV THEN "" ELSE "g", "proj", IF inheritV THEN "" ELSE "5.0", IF np = 0 THEN 0 ELSE 2, cp, cd, cm,
          \* an explicitly activated profile next to an activeByDefault one (the default one counts only when no other profile of the POM is active)
          IF prof = 1 THEN <<[act |-> act, props |-> <<P("a", <<L("6.6")>>)>>, deps |-> <<Dep("g", "prof", <<R("a")>>, "", "", "", FALSE, <<>>)>>, mgmt |-> <<>>],
                             [act |-> [NoAct EXCEPT !.kind = "default"], props |-> <<P("b", <<L("5.5")>>)>>, deps |-> <<Dep("g", "dflt", <<L("1.0")>>, "", "", "", FALSE, <<>>)>>, mgmt |-> <<>>]>> ELSE <<>>,
          IF inheritV THEN "" ELSE "g", IF inheritV THEN "" ELSE "5.0") >>
     \o (IF np = 0 THEN <<>> ELSE << Pm("pg", "parent", "3.3", IF np = 2 THEN 3 ELSE 0, pp, pd, pm,
          IF prof = 2 THEN <<[act |-> act, props |-> <<P("b", <<L("7.7")>>)>>, deps |-> <<>>, mgmt |-> <<Dep("g", "z", <<L("0.1")>>, "", "", "", FALSE, <<>>)>>]>> ELSE <<>>, "pg", "3.3") >>)
     \o (IF np = 2 THEN << Pm("gg", "grand", "1.1", 0, <<P("c", <<L("gp")>>), P("a", <<L("0.0")>>)>>, <<Dep("g", "gd", <<R("c")>>, "", "", "", FALSE, <<>>)>>, <<>>, <<>>, "gg", "1.1") >> ELSE <<>>)
CPs == IF Big THEN PropTables ELSE PropTables \ {<<P("a", <<L("1.0")>>)>>, <<>>}
PPs == IF Big THEN PropTables ELSE {<<>>, <<P("a", <<L("2.0")>>), P("b", <<R("a"), L("-x")>>)>>}
CDs == UNION {DepLists(vt) : vt \in (IF Big THEN VerTemplates ELSE {<<R("a")>>, <<R("project.version")>>, <<R("c")>>})}
PMs == IF Big THEN MgmtLists ELSE {<<>>, <<Dep("g", "z", <<R("a")>>, "", "", "", FALSE, <<>>), Dep("b", "bom", <<L("1.0")>>, "pom", "", "import", FALSE, <<>>)>>}
ActSet == IF Big THEN Acts ELSE {[NoAct EXCEPT !.kind = "default"], [NoAct EXCEPT !.kind = "jdk", !.nums = <<11>>, !.text = "11"], [NoAct EXCEPT !.kind = "jdkrange", !.lo = <<1, 8>>, !.hi = <<9>>, !.text = "[1.8,9)"], [NoAct EXCEPT !.kind = "os", !.field = "family", !.val = "unix"]}
\* termination: every table over three names with seven value forms, seven query templates
ValForms == { <<L("lit")>>, <<R("a")>>, <<R("b")>>, <<R("c")>>, <<L("x"), R("a"), L("y"), R("b")>>, <<R("undefined")>>, <<R("a"), R("a")>> }
QuerySeq == TLCEval(SetToSeq(ValForms))
\* nested quantifiers instead of one set of all lineages: TLC enumerates them lazily (the set has several hundred thousand
\* large records in the thorough tier); without a parent the parent's choices are fixed so that no lineage is emitted twice
Next == kind = "start" /\ \/ (kind' = "lineage" /\ \E np \in {0, 1, 2}, cp \in CPs, cd \in CDs, cm \in MgmtLists, prof \in {0, 1, 2}, act \in ActSet :
                                   \E pp \in (IF np = 0 THEN {<<>>} ELSE PPs), pd \in (IF np = 0 THEN {<<>>} ELSE ParentDeps), pm \in (IF np = 0 THEN {<<>>} ELSE PMs) :
                                      (np = 0 => prof # 2) /\ item' = Lin(np, FALSE, cp, pp, cd, pd, cm, pm, prof, act))
                           \/ (kind' = "nested" /\ \E abOrder \in BOOLEAN, ownZ \in BOOLEAN, aImpC \in BOOLEAN, aOwn \in BOOLEAN, cImpD \in BOOLEAN, cFirst \in BOOLEAN :
                                   item' = <<NestedLin(abOrder, ownZ), NestedBoms(aImpC, aOwn, cImpD, cFirst)>>)
                           \/ (kind' = "table" /\ \E va \in ValForms, vb \in ValForms, vc \in ValForms : item' = <<va, vb, vc>>)
InDom(lin) == ~HasCycle(lin)
Emit == /\ (kind = "lineage" => CSVWrite("%1$s", <<ToJson([kind |-> "lineage", lineage |-> item, boms |-> <<Bom>>, indomain |-> InDom(item),
                     deps |-> IF InDom(item) THEN OutSeq(EffDeps(item, <<Bom>>)) ELSE <<>>,
                     mgmt |-> IF InDom(item) THEN OutSeq(EffMgmt(item, <<Bom>>)) ELSE <<>>])>>, OutFile))
        /\ (kind = "nested" => CSVWrite("%1$s", <<ToJson([kind |-> "lineage", lineage |-> item[1], boms |-> item[2], indomain |-> TRUE,
                     deps |-> OutSeq(EffDeps(item[1], item[2])), mgmt |-> OutSeq(EffMgmt(item[1], item[2]))])>>, OutFile))
        /\ (kind = "table" => CSVWrite("%1$s", <<ToJson([kind |-> "table", table |-> [a |-> item[1], b |-> item[2], c |-> item[3]],
                     queries |-> [q \in 1..7 |-> LET t == QuerySeq[q]
                                                     d == [n \in {"a", "b", "c"} |-> IF n = "a" THEN item[1] ELSE IF n = "b" THEN item[2] ELSE item[3]]
                                                 IN [query |-> TplText(t), tpl |-> t, cyclic |-> CyclicT(t, d, {}), result |-> TplText(Interp(t, d)), resolved |-> Resolved(Interp(t, d))]]])>>, OutFile))
=============================================================================
