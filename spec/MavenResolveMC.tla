--------------------------- MODULE MavenResolveMC ---------------------------
(* Explores MavenResolve on EVERY universe of a small family built around the restart path:      *)
(* b {1.0, 2.5, 3.0}, c {1.0}, d {1.0, 2.0}; the root declares two of b / c / d in either order,    *)
(* softly or (b) by the range (2.0,3.0]; c, each b version and d 1.0 declare at most one more.     *)
(* Checks on the model: termination within the attempt bound and the structural laws of C07 on      *)
(* every returned graph; emits every universe with the graph the model returns, for replay into    *)
(* the real resolver (vh maven) and comparison by MavenTrace.                                       *)
EXTENDS MavenResolve, Json, IOUtils, CSV
CONSTANT Family      \* "small" | "full"
OutFile == IOEnv.VERIF_OUT
Dp(name, g, a, r) == [name |-> name, g |-> g, a |-> a, r |-> r, scope |-> "compile", opt |-> FALSE, typ |-> "", cls |-> "", excl |-> <<>>, mgmt |-> FALSE]
Bd(r) == Dp("g1:b", "g1", "b", r)
Cd(r) == Dp("g1:c", "g1", "c", r)
Dd(r) == Dp("g1:d", "g1", "d", r)
RootOpts == {Bd(1), Bd(13), Cd(1), Dd(1), Dd(5)}
RootPairs == UNION {{<<x, y>> : y \in {z \in RootOpts : z.name # x.name}} : x \in RootOpts}
RootTriples == UNION {UNION {{<<x, y, z>> : z \in {w \in RootOpts : w.name # x.name /\ w.name # y.name}} : y \in {w \in RootOpts : w.name # x.name}} : x \in RootOpts}
\* full family: also three root declarations, and a dependencyManagement entry for d on the root
RootLists == IF Family = "full" THEN UNION {{l, l \o <<[Dd(5) EXCEPT !.mgmt = TRUE]>>, l \o <<[Bd(7) EXCEPT !.mgmt = TRUE]>>} : l \in RootPairs \cup RootTriples} ELSE RootPairs
COpts == {<<>>, <<Bd(1)>>, <<Bd(13)>>, <<Dd(1)>>, <<Dd(5)>>}
         \cup (IF Family = "full" THEN {<<[Dd(5) EXCEPT !.excl = <<"g1:c">>]>>, <<[Bd(13) EXCEPT !.scope = "test"]>>,
                                        <<[Dd(1) EXCEPT !.typ = "war"]>>,                 \* war-typed: d 1.0 is not traversed
                                        <<[Bd(13) EXCEPT !.excl = <<"g1:*">>]>>} ELSE {}) \* everything of the group excluded below b
BOpts == {<<>>, <<Dd(1)>>, <<Dd(5)>>, <<Cd(1)>>}
         \cup (IF Family = "full" THEN {<<Dd(1), Cd(1)>>, <<[Dd(5) EXCEPT !.cls = "sources"]>>,   \* another artifact key of d
                                        <<[Dd(1) EXCEPT !.opt = TRUE]>>} ELSE {})               \* optional below the root: not followed
DOpts == {<<>>, <<Cd(1)>>}
UArt(name, g, a, vs) == [name |-> name, g |-> g, a |-> a, versions |-> vs]
UVer(v, deps) == [v |-> v, deps |-> deps]
Univ(rl, c1, b1, b6, b7, d1) == << UArt("g1:b", "g1", "b", <<UVer(1, b1), UVer(6, b6), UVer(7, b7)>>), UArt("g1:c", "g1", "c", <<UVer(1, c1)>>),
                                    UArt("g1:d", "g1", "d", <<UVer(1, d1), UVer(5, <<>>)>>), UArt("g0:root", "g0", "root", <<UVer(1, rl)>>) >>
\* nested quantifiers, not one set of universes: TLC enumerates the initial states lazily (several hundred thousand large records)
Init == \E rl \in RootLists, c1 \in COpts, b1 \in (IF Family = "full" THEN {<<>>, <<Dd(1)>>, <<[Dd(1) EXCEPT !.opt = TRUE]>>} ELSE BOpts),
           b6 \in (IF Family = "full" THEN BOpts ELSE {<<>>, <<Dd(5)>>}), b7 \in BOpts, d1 \in DOpts : MRInit(Univ(rl, c1, b1, b6, b7, d1))
\* Family = "file": the universes are read from a file (the seeded universes of the check); the model's result for each is
\* what the documented algorithm returns there, which the trace specification uses to recognise finding C07-F25 exactly
FileCases == TLCEval(ndJsonDeserialize(IOEnv.VERIF_CASES))
InitFile == \E i \in 1..Len(FileCases) : MRInit(FileCases[i].universe)
Next == MRNext
Emit == (phase \in {"done", "fatal"} \/ (phase = "incompatible" /\ attempt = MaxAttempts)) =>
          CSVWrite("%1$s", <<ToJson([universe |-> U, root |-> Root, softonly |-> FALSE, attempts |-> attempt,
                                      model |-> [fatal |-> (phase # "done"), nodes |-> nodes, edges |-> edges]])>>, OutFile)
\* liveness on the model: under weak fairness of the step relation every run stops (checked in the quick configuration)
Spec == Init /\ [][Next]_mrvars /\ WF_mrvars(Next)
EventuallyStops == <>(phase \in {"done", "fatal"})
=============================================================================
