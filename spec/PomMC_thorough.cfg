CONSTANTS Big = TRUE
INIT Init
NEXT Next
INVARIANT Emit
