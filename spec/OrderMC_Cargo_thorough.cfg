CONSTANTS
  Tier = "thorough"
  SysName = "Cargo"
  DomSource = "enum"
INIT Init
NEXT Next
INVARIANTS Refl Emit
