---- MODULE ClientMC_TTrace_1790886854 ----
EXTENDS Sequences, TLCExt, Toolbox, Naturals, TLC, ClientMC

_expression ==
    LET ClientMC_TEExpression == INSTANCE ClientMC_TEExpression
    IN ClientMC_TEExpression!expression
----

_trace ==
    LET ClientMC_TETrace == INSTANCE ClientMC_TETrace
    IN ClientMC_TETrace!trace
----

_inv ==
    ~(
        TLCGet("level") = Len(_TETrace)
        /\
        phase = ("hist")
        /\
        hist = (<<[v |-> 1, a |-> 1, pkg |-> "p", del |-> TRUE, d |-> 1]>>)
        /\
        known = ({})
        /\
        vers = (<<>>)
        /\
        deps = (<<>>)
        /\
        lst = ()
        /\
        sysv = ()
    )
----

_init ==
    /\ sysv = _TETrace[1].sysv
    /\ lst = _TETrace[1].lst
    /\ deps = _TETrace[1].deps
    /\ phase = _TETrace[1].phase
    /\ vers = _TETrace[1].vers
    /\ hist = _TETrace[1].hist
    /\ known = _TETrace[1].known
----

_next ==
    /\ \E i,j \in DOMAIN _TETrace:
        /\ \/ /\ j = i + 1
              /\ i = TLCGet("level")
        /\ sysv  = _TETrace[i].sysv
        /\ sysv' = _TETrace[j].sysv
        /\ lst  = _TETrace[i].lst
        /\ lst' = _TETrace[j].lst
        /\ deps  = _TETrace[i].deps
        /\ deps' = _TETrace[j].deps
        /\ phase  = _TETrace[i].phase
        /\ phase' = _TETrace[j].phase
        /\ vers  = _TETrace[i].vers
        /\ vers' = _TETrace[j].vers
        /\ hist  = _TETrace[i].hist
        /\ hist' = _TETrace[j].hist
        /\ known  = _TETrace[i].known
        /\ known' = _TETrace[j].known

\* Uncomment the ASSUME below to write the states of the error trace
\* to the given file in Json format. Note that you can pass any tuple
\* to `JsonSerialize`. For example, a sub-sequence of _TETrace.
    \* ASSUME
    \*     LET J == INSTANCE Json
    \*         IN J!JsonSerialize("ClientMC_TTrace_1790886854.json", _TETrace)

=============================================================================

 Note that you can extract this module `ClientMC_TEExpression`
  to a dedicated file to reuse `expression` (the module in the 
  dedicated `ClientMC_TEExpression.tla` file takes precedence 
  over the module `ClientMC_TEExpression` below).

---- MODULE ClientMC_TEExpression ----
EXTENDS Sequences, TLCExt, Toolbox, Naturals, TLC, ClientMC

expression == 
    [
        \* To hide variables of the `ClientMC` spec from the error trace,
        \* remove the variables below.  The trace will be written in the order
        \* of the fields of this record.
        sysv |-> sysv
        ,lst |-> lst
        ,deps |-> deps
        ,phase |-> phase
        ,vers |-> vers
        ,hist |-> hist
        ,known |-> known
        
        \* Put additional constant-, state-, and action-level expressions here:
        \* ,_stateNumber |-> _TEPosition
        \* ,_sysvUnchanged |-> sysv = sysv'
        
        \* Format the `sysv` variable as Json value.
        \* ,_sysvJson |->
        \*     LET J == INSTANCE Json
        \*     IN J!ToJson(sysv)
        
        \* Lastly, you may build expressions over arbitrary sets of states by
        \* leveraging the _TETrace operator.  For example, this is how to
        \* count the number of times a spec variable changed up to the current
        \* state in the trace.
        \* ,_sysvModCount |->
        \*     LET F[s \in DOMAIN _TETrace] ==
        \*         IF s = 1 THEN 0
        \*         ELSE IF _TETrace[s].sysv # _TETrace[s-1].sysv
        \*             THEN 1 + F[s-1] ELSE F[s-1]
        \*     IN F[_TEPosition - 1]
    ]

=============================================================================



Parsing and semantic processing can take forever if the trace below is long.
 In this case, it is advised to uncomment the module below to deserialize the
 trace from a generated binary file.

\*
\*---- MODULE ClientMC_TETrace ----
\*EXTENDS IOUtils, TLC, ClientMC
\*
\*trace == IODeserialize("ClientMC_TTrace_1790886854.bin", TRUE)
\*
\*=============================================================================
\*

---- MODULE ClientMC_TETrace ----
EXTENDS TLC, ClientMC

trace == 
    <<
    ([phase |-> "start",hist |-> <<>>,known |-> {},vers |-> <<>>,deps |-> <<>>,lst |-> {},sysv |-> "PyPI"]),
    ([phase |-> "hist",hist |-> <<[v |-> 1, a |-> 1, pkg |-> "p", del |-> TRUE, d |-> 1]>>,known |-> {},vers |-> <<>>,deps |-> <<>>,lst |-> ,sysv |-> ])
    >>
----


=============================================================================

---- CONFIG ClientMC_TTrace_1790886854 ----
CONSTANTS
    Tier = "quick"
    Mode = "client"
    MaxList = 0
    MaxHist = 2

INVARIANT
    _inv

CHECK_DEADLOCK
    \* CHECK_DEADLOCK off because of PROPERTY or INVARIANT above.
    FALSE

INIT
    _init

NEXT
    _next

CONSTANT
    _TETrace <- _trace

ALIAS
    _expression
=============================================================================
\* Generated on Thu Oct 01 20:34:17 UTC 2026