CONSTANTS MaxAttempts = 101 Family = "file" Tier = "quick"
INIT InitFile
NEXT Next
INVARIANTS Emit
