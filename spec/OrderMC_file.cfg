CONSTANTS
  Tier = "quick"
  SysName = "file"
  DomSource = "file"
INIT Init
NEXT Next
INVARIANTS Refl Emit
