------------------------------ MODULE PipModel ------------------------------
(* C08: what makes a PyPI resolution graph a consistent pip solution.                     *)
(* Pools: versions PV (PEP 440 keys, two prereleases), specifier catalogue PR (Ranges.tla    *)
(* clause lists), marker catalogue PM over the fixed target environment of the library       *)
(* (python_version 3.9, python_full_version 3.9.6, sys_platform linux, os_name posix).       *)
(* Universe: Seq([name, versions : Seq([v, deps : Seq([name, r, m, extras : Seq(String)])])]) *)
(* Graph: nodes Seq([name, v]) (node 1 = root), edges Seq([f, t, r, m, extras]).              *)
EXTENDS Ranges, SequencesExt

PVe(text, rel, pre) == [text |-> text, rel |-> rel, pre |-> pre]
PV == << PVe("1.0", <<1, 0>>, <<>>), PVe("1.1", <<1, 1>>, <<>>), PVe("1.5", <<1, 5>>, <<>>), PVe("2.0a1", <<2, 0>>, <<1, 1>>),
         PVe("2.0", <<2, 0>>, <<>>), PVe("2.1", <<2, 1>>, <<>>), PVe("3.0rc1", <<3, 0>>, <<3, 1>>), PVe("3.0", <<3, 0>>, <<>>) >>
IsPre(i) == PV[i].pre # <<>>
Cl(op, rel) == [op |-> op, rel |-> rel, star |-> FALSE, pre |-> <<>>, post |-> -1, dev |-> -1]
PRq == << <<Cl(">=", <<1, 0>>)>>, <<Cl("==", <<1, 1>>)>>, <<Cl("<", <<2, 0>>)>>, <<Cl("~=", <<1, 0>>)>>, <<Cl("!=", <<1, 5>>)>>,
          <<Cl(">=", <<1, 1>>), Cl("<", <<2, 1>>)>>, <<[Cl(">=", <<2, 0>>) EXCEPT !.pre = <<1, 1>>]>>, <<[Cl("==", <<2>>) EXCEPT !.star = TRUE]>>,
          <<Cl(">", <<2, 0>>)>>, <<Cl("<=", <<1, 5>>)>>, <<Cl(">=", <<0>>)>>, <<Cl(">=", <<3, 5>>)>>, <<Cl("==", <<2, 0>>)>>, <<Cl(">=", <<2, 0>>)>> >>
PRText(r) == PySpecText(PRq[r])
NamesPre(r) == \E i \in 1..Len(PRq[r]) : PRq[r][i].pre # <<>>
CandKey(i) == [epoch |-> 0, rel |-> PV[i].rel, pre |-> PV[i].pre, post |-> -1, dev |-> -1, local |-> <<>>]
ClauseSatV(c, i, strict) ==       \* PEP 440 clause against pool version i (prerelease candidates included)
  LET cmp == Pep440Cmp(CandKey(i), PyKey(c)) IN
  CASE c.op = "==" -> (IF c.star THEN PrefixMatch(PV[i].rel, c.rel) ELSE cmp = 0)
    [] c.op = "!=" -> (IF c.star THEN ~PrefixMatch(PV[i].rel, c.rel) ELSE cmp # 0)
    [] c.op = "<=" -> cmp <= 0
    [] c.op = ">=" -> cmp >= 0
    [] c.op = "<" -> cmp < 0 /\ (strict => ~(IsPre(i) /\ c.pre = <<>> /\ CmpNums(PV[i].rel, c.rel) = 0))   \* <V excludes prereleases of V
    [] c.op = ">" -> cmp > 0
    [] c.op = "~=" -> cmp >= 0 /\ PrefixMatch(PV[i].rel, SubSeq(c.rel, 1, Len(c.rel) - 1))
RawSat == TLCEval([r \in 1..Len(PRq) |-> [i \in 1..Len(PV) |-> \A k \in 1..Len(PRq[r]) : ClauseSatV(PRq[r][k], i, TRUE)]])
\* the same without the rule that <V excludes prereleases of V (plain interval reading; recorded finding C08-F21)
LooseSat == TLCEval([r \in 1..Len(PRq) |-> [i \in 1..Len(PV) |-> \A k \in 1..Len(PRq[r]) : ClauseSatV(PRq[r][k], i, FALSE)]])
\* pip's prerelease rule: a prerelease is acceptable only when the specifier names a prerelease, or when no
\* final release of the package satisfies the specifier
\* (pip combines all specifiers on a package into one set: the rule applies to the set of requirements rs)
SatPip(r, i, have, rs) == RawSat[r][i] /\ (IsPre(i) => ((\E q \in rs : NamesPre(q)) \/ ~\E j \in have : ~IsPre(j) /\ \A q \in rs : RawSat[q][j]))

(* ---- markers ---- *)
EnvVer(var) == CASE var = "python_version" -> <<3, 9>> [] var = "python_full_version" -> <<3, 9, 6>>
EnvStr(var) == CASE var = "sys_platform" -> "linux" [] var = "os_name" -> "posix" [] var = "platform_machine" -> "x86_64" [] var = "implementation_name" -> "cpython"
LeafV(var, op, rel) == [t |-> "ver", var |-> var, op |-> op, rel |-> rel, s |-> ""]
LeafS(var, op, s) == [t |-> "str", var |-> var, op |-> op, rel |-> <<>>, s |-> s]
LeafX(s) == [t |-> "extra", var |-> "extra", op |-> "==", rel |-> <<>>, s |-> s]
And2(a, b) == [t |-> "and", a |-> a, b |-> b]
Or2(a, b) == [t |-> "or", a |-> a, b |-> b]
RelText(rel) == JoinS([i \in 1..Len(rel) |-> ToString(rel[i])], ".")
RECURSIVE MText(_), MEval(_, _)
MText(m) == CASE m.t = "ver" -> m.var \o " " \o m.op \o " \"" \o RelText(m.rel) \o "\""
              [] m.t = "str" -> m.var \o " " \o m.op \o " \"" \o m.s \o "\""
              [] m.t = "extra" -> "extra == \"" \o m.s \o "\""
              [] m.t = "and" -> MText(m.a) \o " and " \o MText(m.b)
              [] m.t = "or" -> "(" \o MText(m.a) \o " or " \o MText(m.b) \o ")"
MEval(m, extras) ==
  CASE m.t = "ver" -> PyClauseSat(Cl(m.op, m.rel), [rel |-> EnvVer(m.var)])
    [] m.t = "str" -> (IF m.op = "==" THEN EnvStr(m.var) = m.s ELSE EnvStr(m.var) # m.s)
    [] m.t = "extra" -> m.s \in extras
    [] m.t = "and" -> MEval(m.a, extras) /\ MEval(m.b, extras)
    [] m.t = "or" -> MEval(m.a, extras) \/ MEval(m.b, extras)
PM == << LeafV("python_version", ">=", <<3, 6>>), LeafV("python_version", "<", <<3, 0>>), LeafS("sys_platform", "==", "win32"),
         LeafS("sys_platform", "==", "linux"), LeafS("os_name", "!=", "nt"), LeafX("test"),
         And2(LeafV("python_version", ">=", <<3, 6>>), LeafX("dev")), Or2(LeafS("sys_platform", "==", "win32"), LeafV("python_version", ">", <<3, 8>>)),
         LeafV("python_version", "==", <<3, 9>>), LeafV("python_full_version", "<", <<3, 9, 6>>),
         And2(LeafS("os_name", "==", "posix"), LeafS("sys_platform", "!=", "linux")), Or2(LeafX("test"), LeafX("dev")),
         LeafV("python_version", "~=", <<3, 7>>), LeafV("python_full_version", ">=", <<3, 9, 6>>),
         \* an extra inside a disjunction: true without any extra when the other side is
         Or2(LeafX("test"), LeafS("sys_platform", "==", "linux")), Or2(LeafX("dev"), LeafV("python_version", ">=", <<3, 0>>)),
         Or2(LeafV("python_version", "<", <<3, 0>>), LeafX("test")), And2(Or2(LeafX("dev"), LeafS("os_name", "==", "posix")), LeafV("python_version", ">=", <<3, 6>>)),
         Or2(And2(LeafX("test"), LeafS("sys_platform", "==", "win32")), LeafS("os_name", "==", "posix")) >>
MarkerTrue(m, extras) == m = 0 \/ MEval(PM[m], extras)

(* ---- validity ---- *)
Els(s) == {s[i] : i \in 1..Len(s)}
PkgRec(U, name) == CHOOSE p \in Els(U) : p.name = name
Known(U, name) == \E p \in Els(U) : p.name = name
HaveOf(U, name) == IF Known(U, name) THEN {e.v : e \in Els(PkgRec(U, name).versions)} ELSE {}
DepsOf(U, n) == Els((CHOOSE e \in Els(PkgRec(U, n.name).versions) : e.v = n.v).deps)
ExtrasAt(g, n) == UNION {Els(e.extras) : e \in {x \in Els(g.edges) : x.t = n}}
Active(U, g, n) == {d \in DepsOf(U, g.nodes[n]) : MarkerTrue(d.m, ExtrasAt(g, n))}
RECURSIVE Reach(_, _)
Reach(g, S) == LET T == S \cup {e.t : e \in {x \in Els(g.edges) : x.f \in S}} IN IF T = S THEN S ELSE Reach(g, T)
\* requirements on package `name` declared by versions that are NOT in the final graph (abandoned pins: a version pinned
\* first and replaced in place later, or one that became unreachable); the resolver keeps what they contributed
StaleSrc(U, g, name) == UNION {UNION {{d \in Els(e.deps) : d.name = name} : e \in {x \in Els(p.versions) : ~\E k \in 1..Len(g.nodes) : g.nodes[k].name = p.name /\ g.nodes[k].v = x.v}} : p \in Els(U)}
\* recorded finding C08-F20: the requirement is active only thanks to extras, and at least one requirement on this
\* package (in the graph, or from an abandoned version) does not request them (the package can be pinned before the
\* extras arrive; its extra-guarded requirements are then never added)
LateExtras(U, g, n, d) == d.m # 0 /\ ~MEval(PM[d.m], {}) /\ (\/ \E e \in Els(g.edges) : e.t = n /\ ~MEval(PM[d.m], Els(e.extras))
                                                             \/ \E s \in StaleSrc(U, g, g.nodes[n].name) : ~MEval(PM[d.m], Els(s.extras)))
\* recorded finding C08-F21: the requirement has an edge to a prerelease of its own exclusive upper bound (<V reaching
\* V's prerelease), which happens when another requirement on the package names a prerelease and the resolver
\* switches to interval matching
UpperBoundPre(g, n, d) == \E e \in Els(g.edges) : e.f = n /\ g.nodes[e.t].name = d.name /\ e.r = d.r /\ IsPre(g.nodes[e.t].v)
                              /\ LooseSat[d.r][g.nodes[e.t].v] /\ ~RawSat[d.r][g.nodes[e.t].v]
\* recorded finding C08-F24 (stale criteria, as in resolvelib before 0.8.1): what an abandoned version required stays in force.
\* (a) the selected prerelease satisfies the requirement as an interval and a requirement of an abandoned version names a prerelease
StalePre(U, g, n, d) == \E e \in Els(g.edges) : e.f = n /\ g.nodes[e.t].name = d.name /\ e.r = d.r /\ IsPre(g.nodes[e.t].v) /\ RawSat[d.r][g.nodes[e.t].v]
                              /\ \E s \in StaleSrc(U, g, d.name) : NamesPre(s.r) /\ RawSat[s.r][g.nodes[e.t].v]
\* (b) the edge's marker is false for the extras requested in the graph, but true with the extras an abandoned version requested
StaleExtras(U, g, e) == \E d \in DepsOf(U, g.nodes[e.f]) : d.name = g.nodes[e.t].name /\ d.r = e.r /\ d.m = e.m /\ d.m # 0
                              /\ \E s \in StaleSrc(U, g, g.nodes[e.f].name) : MEval(PM[d.m], ExtrasAt(g, e.f) \cup Els(s.extras))
PipViolations(U, root, g) ==
     {<<"two-versions-of-one-package", i>> : i \in {i \in 1..Len(g.nodes) : \E j \in 1..Len(g.nodes) : j # i /\ g.nodes[j].name = g.nodes[i].name}}
  \cup (IF g.nodes[1].name = root.name /\ g.nodes[1].v = root.v THEN {} ELSE {<<"root-replaced", 1>>})
  \cup UNION {{<<IF LateExtras(U, g, n, d) THEN "extra-guarded-requirement-missing-when-extras-arrive-after-the-pin"
                 ELSE IF UpperBoundPre(g, n, d) THEN "prerelease-of-exclusive-upper-bound-admitted"
                 ELSE IF StalePre(U, g, n, d) THEN "prerelease-admitted-by-requirement-of-an-abandoned-version"
                 ELSE "true-marker-requirement-without-satisfying-edge", n>> :
                 d \in {d \in Active(U, g, n) : ~\E e \in Els(g.edges) : e.f = n /\ g.nodes[e.t].name = d.name /\ e.r = d.r
                                                      /\ SatPip(d.r, g.nodes[e.t].v, HaveOf(U, d.name), {x.r : x \in {y \in Els(g.edges) : y.t = e.t}})}} : n \in 1..Len(g.nodes)}
  \cup {<<IF StaleExtras(U, g, g.edges[i]) THEN "edge-from-extra-guarded-requirement-enabled-by-an-abandoned-version" ELSE "edge-from-false-marker-requirement", i>> :
          i \in {i \in 1..Len(g.edges) : LET e == g.edges[i] IN
          (\E d \in DepsOf(U, g.nodes[e.f]) : d.name = g.nodes[e.t].name /\ d.r = e.r /\ d.m = e.m)      \* the edge is this declaration (same marker)
          /\ ~\E d \in Active(U, g, e.f) : d.name = g.nodes[e.t].name /\ d.r = e.r /\ d.m = e.m}}
  \cup {<<"unreachable-node", n>> : n \in (1..Len(g.nodes)) \ Reach(g, {1})}
  \* the root is what is being installed: an edge leaving the root node that the root VERSION does not declare (but another
  \* version of the root package does) means the root was replaced in all but name
  \cup {<<"root-carries-requirement-of-another-root-version", i>> : i \in {i \in 1..Len(g.edges) : LET e == g.edges[i] IN e.f = 1
          /\ ~(\E d \in DepsOf(U, g.nodes[1]) : d.name = g.nodes[e.t].name /\ d.r = e.r)
          /\ \E ov \in Els(PkgRec(U, root.name).versions) : ov.v # root.v /\ \E d \in Els(ov.deps) : d.name = g.nodes[e.t].name /\ d.r = e.r}}
\* informational (not part of C08): an edge the selected version of its source never declared
UndeclaredEdges(U, g) == {i \in 1..Len(g.edges) : ~\E d \in DepsOf(U, g.nodes[g.edges[i].f]) : d.name = g.nodes[g.edges[i].t].name /\ d.r = g.edges[i].r /\ d.m = g.edges[i].m}
=============================================================================
