CONSTANTS MaxRounds = 60 Family = "small"
SPECIFICATION Spec
INVARIANTS RoundsBounded StackOK DonePinsOK DoneLaws DoneLawsNoRepin Emit
PROPERTY EventuallyStops
