CONSTANTS MaxRounds = 60 Family = "small"
INIT Init
NEXT Next
INVARIANTS RoundsBounded StackOK DonePinsOK DoneLaws Emit
