CONSTANTS
  Flags = {"f1", "f2"}
  Keys = {"k1", "k2"}
  Vals = {"", "a", "b c"}
  MaxOps = 3
INIT Init
NEXT Next
INVARIANT Emit
PROPERTY OnlyTargetChanges
