------------------------------- MODULE AttrMC -------------------------------
(* Enumerates every operation history up to MaxOps and emits the maximal ones for replay. *)
EXTENDS AttrSets, Json, IOUtils, CSV
OutFile == IOEnv.VERIF_OUT
\* model invariant: a slot changes only through an operation that names it as target
OnlyTargetChanges == [][\A i \in Slots : slots'[i] # slots[i] => hist'[Len(hist')].slot = i]_<<slots, hist>>
Emit == Len(hist) = MaxOps => CSVWrite("%1$s", <<ToJson([ops |-> hist])>>, OutFile)
Spec == Init /\ [][Next]_<<slots, hist>>
=============================================================================
