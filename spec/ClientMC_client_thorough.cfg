CONSTANTS
  Tier = "thorough"
  Mode = "client"
  MaxList = 0
  MaxHist = 3
INIT Init
NEXT Next
INVARIANTS Emit KeysOnce DepsKnown VersKnown LastWins
