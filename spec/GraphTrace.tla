------------------------------ MODULE GraphTrace ------------------------------
(* Trace validation for C13: each record is the orbit of one graph run through the real   *)
(* Graph.Canon; judged by GraphCanon!OrbitRej.                                            *)
EXTENDS GraphCanon, Json, IOUtils, CSV
Obs == TLCEval(ndJsonDeserialize(IOEnv.VERIF_OBS))
RejFile == IOEnv.VERIF_REJ
VARIABLE row
Init == row = 0
Next == row = 0 /\ row' \in 1..Len(Obs)
Emit == row = 0 \/ \A law \in OrbitRej(Obs[row].members, Obs[row].small) : CSVWrite("%1$s", <<ToJson([law |-> law, n |-> row])>>, RejFile)
ASSUME CSVWrite("%1$s", <<ToJson([law |-> "stats", n |-> Len(Obs)])>>, RejFile)
=============================================================================
