--------------------------- MODULE MavenStepTrace ---------------------------
(* Step-level trace validation of the real Maven resolver against MavenResolve.tla.                *)
(* The resolver, built with the verif tag, reports one event per step of its main loop (hook        *)
(* maven.VerifStep): start of an attempt, node taken from the queue, one event per declaration with  *)
(* what was done about it, end of the resolution.  Each event is consumed by the action of            *)
(* MavenResolve it corresponds to, with the logged fields bound to the model's state BEFORE and        *)
(* AFTER the step; steps the code does not announce (end of a node's declaration list) are silent.     *)
(* The trace of many resolutions is one file; a "start" event re-initialises the model with the        *)
(* logged universe.  The behaviour is a single path: if the model cannot take the next event the        *)
(* run deadlocks at that line (deadlock checking ON), which is the rejection.                           *)
EXTENDS MavenResolve, Json, IOUtils
Trace == TLCEval(ndJsonDeserialize(IOEnv.VERIF_TRACE))
VARIABLE l
tvars == <<mrvars, l>>
Ev == Trace[l]
IsEvent(e) == l <= Len(Trace) /\ Ev.ev = e /\ l' = l + 1
\* MRInit with primes: a new resolution starts
StartP(u) == /\ U' = u /\ reqs' = [k \in Keys(u) |-> <<>>] /\ attempt' = 1
             /\ nodes' = <<[name |-> Root.name, v |-> Root.v, errs |-> <<>>]>> /\ edges' = <<>>
             /\ todo' = <<[n |-> 1, key |-> <<Root.name, "", "">>, excl |-> {}, incl |-> FALSE]>>
             /\ conc' = {<<<<Root.name, "", "">>, Root.v, 1>>} /\ resolved' = {<<Root.name, "", "">>}
             /\ first' = TRUE /\ cur' = 0 /\ decls' = <<>> /\ di' = 0 /\ phase' = "dequeue"
TInit == l = 2 /\ Trace[1].ev = "start" /\ MRInit(Trace[1].universe)
\* a finished (or failed) resolution is followed by the next one
TStart == IsEvent("start") /\ phase \in {"done", "fatal"} /\ StartP(Ev.universe)
TRestart == IsEvent("restart") /\ Restart
TDequeue == IsEvent("dequeue") /\ Dequeue /\ nodes[Head(todo).n].name = Ev.name /\ nodes[Head(todo).n].v = Ev.v
\* what the code says it did with the declaration, checked against what the model's step does
Outcome == CASE phase' = "fatal" -> "fatal"
             [] phase' = "incompatible" -> "incompatible"
             [] Len(nodes') > Len(nodes) -> "new"
             [] Len(edges') > Len(edges) /\ conc' # conc -> "reuse"
             [] Len(edges') > Len(edges) -> "edge"
             [] nodes' # nodes -> "error"
             [] OTHER -> "excluded"
TDeclare == /\ IsEvent("declare") /\ Declare
            /\ decls[di].name = Ev.name /\ Outcome = Ev.outcome
            /\ (Ev.outcome \in {"new", "reuse", "edge"} => nodes'[edges'[Len(edges')].t].v = Ev.v /\ edges'[Len(edges')].r = Ev.r)
TDone == IsEvent("done") /\ Finish /\ Len(nodes) = Ev.nodes /\ Len(edges) = Ev.edges
TSilent == EndNode /\ UNCHANGED l          \* the code's inner loop ends without an event
TEnd == l > Len(Trace) /\ phase \in {"done", "fatal"} /\ UNCHANGED tvars
TNext == TStart \/ TRestart \/ TDequeue \/ TDeclare \/ TDone \/ TSilent \/ TEnd
=============================================================================
