CONSTANTS MaxAttempts = 8 Family = "small" Tier = "quick"
INIT Init
NEXT Next
INVARIANTS Terminates DoneStructural Emit
