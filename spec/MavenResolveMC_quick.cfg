CONSTANTS MaxAttempts = 8 Family = "small" Tier = "quick"
SPECIFICATION Spec
INVARIANTS Terminates DoneStructural DoneAllLawsWithoutRestart Emit
PROPERTY EventuallyStops
