CONSTANTS
  Flags = {"f1", "f2", "f3"}
  Keys = {"k1", "k2", "k3"}
  Vals = {"", "a", "b c", "q\"x"}
  MaxOps = 3
INIT Init
NEXT Next
INVARIANT Emit
PROPERTY OnlyTargetChanges
