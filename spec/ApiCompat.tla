------------------------------ MODULE ApiCompat ------------------------------
(* C17: v3alpha is a wire-compatible superset of v3; the generated Go code describes the   *)
(* .proto sources; the resolver's system identifiers equal the API's System enum numbers.   *)
(* Data: descriptor sets in the neutral form of harness/internal/apidesc, one extracted from *)
(* each generated Go package (go3, goA) and one parsed from each .proto source (src3, srcA). *)
(* Wire model: a v3 client picks a method, the request or the response, and descends along   *)
(* message-typed fields; at every step the v3alpha server must interpret (method name, field *)
(* number) the way the client meant it.  TLC explores every path up to MaxDepth; a second,    *)
(* static pass covers every definition of v3 whether reachable from an RPC or not.            *)
EXTENDS Integers, Sequences, FiniteSets, TLC, Json, IOUtils, CSV
CONSTANT MaxDepth
D == TLCEval(JsonDeserialize(IOEnv.VERIF_API))
RejFile == IOEnv.VERIF_REJ
El(s) == {s[i] : i \in 1..Len(s)}
Go3 == D.go3
GoA == D.goA
HasMsg(d, n) == \E m \in El(d.messages) : m.name = n
MsgOf(d, n) == CHOOSE m \in El(d.messages) : m.name = n
HasEnum(d, n) == \E e \in El(d.enums) : e.name = n
EnumOf(d, n) == CHOOSE e \in El(d.enums) : e.name = n
Methods(d) == UNION {{[svc |-> s.name, m |-> s.methods[i]] : i \in 1..Len(s.methods)} : s \in El(d.services)}
\* "/v3/..." on the v3 side corresponds to "/v3alpha/..." on the v3alpha side
PrefixOK(p3, pA) == Len(p3) >= 3 /\ SubSeq(p3, 1, 3) = "/v3" /\ pA = "/v3alpha" \o SubSeq(p3, 4, Len(p3))
Bad(law, where, what) == [law |-> law, where |-> where, what |-> what]

MethodBad(x) ==      \* x : [svc, m] of v3
  LET cands == {y \in Methods(GoA) : y.svc = x.svc /\ y.m.name = x.m.name} IN
  IF cands = {} THEN {Bad("rpc-missing-in-v3alpha", x.svc, x.m.name)}
  ELSE LET y == CHOOSE y \in cands : TRUE IN
     (IF y.m.input # x.m.input \/ y.m.output # x.m.output THEN {Bad("rpc-message-types-differ", x.svc, x.m.name)} ELSE {})
     \cup (IF y.m.clientstream # x.m.clientstream \/ y.m.serverstream # x.m.serverstream THEN {Bad("rpc-streaming-differs", x.svc, x.m.name)} ELSE {})
     \cup (IF y.m.httpverb # x.m.httpverb \/ y.m.httpbody # x.m.httpbody \/ ~PrefixOK(x.m.httppath, y.m.httppath) THEN {Bad("http-binding-differs", x.svc, x.m.name)} ELSE {})
FieldBad(mname, f) ==
  LET gs == {g \in El(MsgOf(GoA, mname).fields) : g.number = f.number} IN
  IF gs = {} THEN {Bad("field-missing-in-v3alpha", mname, f.name)}
  ELSE LET g == CHOOSE g \in gs : TRUE IN
     (IF g.name # f.name THEN {Bad("field-renamed", mname, f.name)} ELSE {})
     \cup (IF g.kind # f.kind \/ g.typename # f.typename THEN {Bad("field-type-differs", mname, f.name)} ELSE {})
     \cup (IF g.card # f.card THEN {Bad("field-cardinality-differs", mname, f.name)} ELSE {})
     \cup (IF g.oneof # f.oneof \/ g.opt3 # f.opt3 THEN {Bad("field-oneof-membership-differs", mname, f.name)} ELSE {})
MsgBad(mname) ==
  IF ~HasMsg(Go3, mname) THEN {}         \* a type of another package (google.protobuf.Timestamp)
  ELSE IF ~HasMsg(GoA, mname) THEN {Bad("message-missing-in-v3alpha", mname, "")}
  ELSE UNION {FieldBad(mname, f) : f \in El(MsgOf(Go3, mname).fields)}
EnumBad(ename) ==
  IF ~HasEnum(GoA, ename) THEN {Bad("enum-missing-in-v3alpha", ename, "")}
  ELSE {Bad("enum-value-differs", ename, v.name) : v \in {v \in El(EnumOf(Go3, ename).values) :
           ~\E w \in El(EnumOf(GoA, ename).values) : w.name = v.name /\ w.number = v.number}}

(* ---- generated code describes the sources ---- *)
Norm(d) == [package |-> d.package, services |-> El(d.services), messages |-> {[name |-> m.name, fields |-> El(m.fields)] : m \in El(d.messages)},
            enums |-> {[name |-> e.name, values |-> El(e.values)] : e \in El(d.enums)}]
GenBad == (IF Norm(D.go3) # Norm(D.src3) THEN {Bad("generated-go-differs-from-proto-source", "api/v3", "")} ELSE {})
          \cup (IF Norm(D.goA) # Norm(D.srcA) THEN {Bad("generated-go-differs-from-proto-source", "api/v3alpha", "")} ELSE {})
(* ---- the generated gRPC stubs are bound to the descriptor's methods ---- *)
\* D.grpc3 / D.grpcA: recorded by driving every generated client stub (path handed to ClientConn.Invoke) and every
\* generated server handler (info.FullMethod) once: both must be "/<package>.<Service>/<Method>" for every method.
GrpcBad(d, g, tag) == UNION {LET full == d.package \o "." \o s.name IN
     (IF g.service # full THEN {Bad("grpc-service-name-differs-from-descriptor", tag, g.service)} ELSE {})
     \cup UNION {LET want == "/" \o full \o "/" \o m.name
                     bs == {b \in El(g.methods) : b.name = m.name} IN
                 IF bs = {} THEN {Bad("grpc-method-missing-in-generated-stubs", tag, m.name)}
                 ELSE UNION {(IF b.client # want THEN {Bad("grpc-client-stub-sends-another-path", tag, m.name)} ELSE {})
                             \cup (IF b.server # want THEN {Bad("grpc-server-handler-reports-another-method", tag, m.name)} ELSE {}) : b \in bs}
              : m \in El(s.methods)} : s \in El(d.services)}
(* ---- resolver system identifiers ---- *)
SysNum(d, n) == (CHOOSE v \in El(EnumOf(d, "System").values) : v.name = n).number
ConstBad == {Bad("resolver-system-constant-differs-from-enum", c[1], c[2]) : c \in {c \in {<<"NPM", "NPM">>, <<"Maven", "MAVEN">>, <<"PyPI", "PYPI">>, <<"UnknownSystem", "SYSTEM_UNSPECIFIED">>} :
               D.consts[c[1]] # SysNum(Go3, c[2]) \/ D.consts[c[1]] # SysNum(GoA, c[2])}}
StaticBad == UNION {MsgBad(m.name) : m \in El(Go3.messages)} \cup UNION {EnumBad(e.name) : e \in El(Go3.enums)}
             \cup UNION {MethodBad(x) : x \in Methods(Go3)} \cup GenBad \cup ConstBad
             \cup GrpcBad(D.go3, D.grpc3, "api/v3") \cup GrpcBad(D.goA, D.grpcA, "api/v3alpha")

(* ---- the wire walk ---- *)
VARIABLES phase, meth, side, path, ctype
Init == phase = "start" /\ meth = "" /\ side = "" /\ path = <<>> /\ ctype = ""
PickMethod == phase = "start" /\ \E x \in Methods(Go3) : \E s \in {"request", "response"} :
                 phase' = "walk" /\ meth' = x.m.name /\ side' = s /\ path' = <<>> /\ ctype' = (IF s = "request" THEN x.m.input ELSE x.m.output)
Descend == phase = "walk" /\ Len(path) < MaxDepth /\ HasMsg(Go3, ctype)
           /\ \E f \in {f \in El(MsgOf(Go3, ctype).fields) : f.kind = "message"} :
                 path' = Append(path, f.name) /\ ctype' = f.typename /\ UNCHANGED <<phase, meth, side>>
Next == PickMethod \/ Descend
\* at every step of every walk the server's interpretation equals the client's
WalkBad == IF phase = "start" THEN {} ELSE MsgBad(ctype)
              \cup (IF HasMsg(Go3, ctype) THEN UNION {EnumBad(f.typename) : f \in {f \in El(MsgOf(Go3, ctype).fields) : f.kind = "enum"}} ELSE {})
Emit == /\ \A b \in WalkBad : CSVWrite("%1$s", <<ToJson([law |-> b.law, where |-> b.where, what |-> b.what, via |-> <<meth, side>> \o path])>>, RejFile)
        /\ (phase = "start" => \A b \in StaticBad : CSVWrite("%1$s", <<ToJson([law |-> b.law, where |-> b.where, what |-> b.what, via |-> <<"static">>])>>, RejFile))
=============================================================================
