CONSTANTS
  Roots = {1, 2, 3}
  Resolvers = {1, 2}
  MaxSteps = 2
  MaxBatch = 2
INIT PInit
NEXT PNext
INVARIANT Emit
