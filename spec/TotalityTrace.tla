---------------------------- MODULE TotalityTrace ----------------------------
EXTENDS Totality, Json, IOUtils, CSV
Obs == TLCEval(ndJsonDeserialize(IOEnv.VERIF_OBS))
RejFile == IOEnv.VERIF_REJ
VARIABLE row
TInit == row = 0 /\ MInit
TNext == row = 0 /\ row' \in 1..Len(Obs) /\ UNCHANGED <<state, word>>
\* each record summarises the calls of one (entry point, system) pair: every outcome that occurred with a witness input
Emit == row = 0 \/ \A i \in 1..Len(Obs[row].outcomes) : \A x \in CallRej(Obs[row].outcomes[i]) :
          CSVWrite("%1$s", <<ToJson([law |-> x, n |-> row, k |-> i])>>, RejFile)
ASSUME CSVWrite("%1$s", <<ToJson([law |-> "stats", n |-> Len(Obs), k |-> 0])>>, RejFile)
=============================================================================
