CONSTANTS MaxLen = 0
INIT TInit
NEXT TNext
INVARIANT Emit
