CONSTANTS MaxLen = 0 MaxLenK = 0 MaxLines = 0 MaxDepth = 0
INIT TInit
NEXT TNext
INVARIANT Emit
