CONSTANTS
  Tier = "quick"
  SysName = "Go"
  DomSource = "enum"
INIT Init
NEXT Next
INVARIANTS Refl Emit
