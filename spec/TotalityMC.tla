----------------------------- MODULE TotalityMC -----------------------------
EXTENDS Totality, Json, IOUtils, CSV
Emit == state = "called" => CSVWrite("%1$s", <<ToJson(word)>>, IOEnv.VERIF_OUT)
=============================================================================
