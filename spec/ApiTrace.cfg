CONSTANTS
  Goroutines = {1}
  Names = {"n1"}
INIT TInit
NEXT TNext
INVARIANT Emit
