------------------------------ MODULE SessionMC ------------------------------
(* Enumerates every plan up to the bounds and emits the maximal ones. *)
EXTENDS ResolveSession, Json, IOUtils, CSV
Emit == Len(plan) = MaxSteps => CSVWrite("%1$s", <<ToJson([steps |-> plan])>>, IOEnv.VERIF_OUT)
=============================================================================
