--------------------------- MODULE ResolveSession ---------------------------
(* C05: resolution is a pure function of the package universe and the root.               *)
(* A session: one client holding a fixed universe, a few resolver objects, and a plan of    *)
(* steps.  A step is a single Resolve call, or a batch of calls issued concurrently.        *)
(* The model keeps, per root, the digest of the first result and the digest of what the      *)
(* client reports for every package; every later result for that root must carry the same    *)
(* digest and the client digest must never change.  The model knows nothing about resolvers: *)
(* a resolver that reads the client only can never violate it, which is the point.           *)
EXTENDS Integers, Sequences, FiniteSets, TLC
CONSTANTS Roots, Resolvers, MaxSteps, MaxBatch

\* plan steps: [kind |-> "one", root, res] or [kind |-> "batch", calls : Seq([root, res])]
One == [kind : {"one"}, root : Roots, res : Resolvers, calls : {<<>>}]
Batches == {[kind |-> "batch", root |-> 0, res |-> 0, calls |-> c] :
              c \in UNION {[1..n -> [root : Roots, res : Resolvers]] : n \in 2..MaxBatch}}
VARIABLES plan
PInit == plan = <<>>
PNext == Len(plan) < MaxSteps /\ \E s \in One \cup Batches : plan' = Append(plan, s)

(* ---- judgement of a recorded session ---- *)
\* events : Seq([step, root, res, digest, client]) in completion order; client0 : digest before the first call
FirstDigest(events, root) == events[CHOOSE i \in 1..Len(events) : events[i].root = root /\ \A j \in 1..(i - 1) : events[j].root # root].digest
SessionViolations(client0, events) ==
     {<<"result-differs-from-first-result-for-the-same-root", i>> : i \in {i \in 1..Len(events) : events[i].digest # FirstDigest(events, events[i].root)}}
  \cup {<<"client-reports-something-else-after-resolving", i>> : i \in {i \in 1..Len(events) : events[i].client # client0}}
=============================================================================
