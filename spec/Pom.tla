--------------------------------- MODULE Pom ---------------------------------
(* C15: the effective POM of a project lineage, as Maven's model builder computes it (the   *)
(* subset the property names): profile activation and injection, parent inheritance (child     *)
(* wins), property interpolation with the project.* / pom.* / bare built-ins, de-duplication,    *)
(* import-scope BOM expansion, dependencyManagement injection.                                    *)
(* A value is a TEMPLATE: sequence of parts [lit |-> "text"] or [ref |-> "name"], printed         *)
(* "${name}".  A POM: [g, a, v, parent (index into the lineage, 0 none), props : Seq([n, val]),   *)
(* deps, mgmt : Seq(dep), profiles : Seq([act, props, deps, mgmt])]; dep : [g, a, v (template),    *)
(* typ, cls, scope, opt, excl : Seq(String)].  Lineage[1] is the project; boms : Seq(lineage).     *)
EXTENDS Integers, Sequences, FiniteSets, TLC, SequencesExt
L(s) == [k |-> "lit", s |-> s]
R(n) == [k |-> "ref", s |-> n]
RECURSIVE TplText(_)
TplText(t) == IF t = <<>> THEN "" ELSE (IF t[1].k = "lit" THEN t[1].s ELSE "${" \o t[1].s \o "}") \o TplText(Tail(t))
\* dictionary: function name -> template.  Interpolation with a cycle guard; unresolved placeholders stay.
RECURSIVE InterpT(_, _, _)
InterpT(t, dict, resolving) ==
  IF t = <<>> THEN <<>>
  ELSE LET p == t[1] IN
    IF p.k = "lit" THEN <<p>> \o InterpT(Tail(t), dict, resolving)
    ELSE IF p.s \in resolving THEN t                                   \* cycle: leave the rest as it is
    ELSE IF p.s \in DOMAIN dict THEN InterpT(dict[p.s], dict, resolving \cup {p.s}) \o InterpT(Tail(t), dict, resolving)
    ELSE <<p>> \o InterpT(Tail(t), dict, resolving)
Interp(t, dict) == InterpT(t, dict, {})
Resolved(t) == \A i \in 1..Len(t) : t[i].k = "lit"
\* does looking up this template run into a property cycle? (Maven then fails the build: out of the effective-POM domain)
RECURSIVE CyclicT(_, _, _)
CyclicT(t, dict, resolving) ==
  \E i \in 1..Len(t) : t[i].k = "ref" /\ (t[i].s \in resolving \/ (t[i].s \in DOMAIN dict /\ CyclicT(dict[t[i].s], dict, resolving \cup {t[i].s})))

(* ---- profile activation (Maven's JdkVersionProfileActivator / OperatingSystemProfileActivator) ---- *)
JDK == <<11, 0, 8>>
RECURSIVE CmpN(_, _, _)
CmpN(x, y, i) == IF i > Len(x) /\ i > Len(y) THEN 0
                 ELSE LET a == IF i <= Len(x) THEN x[i] ELSE 0 b == IF i <= Len(y) THEN y[i] ELSE 0 IN
                      IF a < b THEN -1 ELSE IF a > b THEN 1 ELSE CmpN(x, y, i + 1)
IsPrefixN(p, x) == Len(p) <= Len(x) /\ SubSeq(x, 1, Len(p)) = p
\* act : [kind, nums, lo, hi, hiIncl, field, val] ; kind in default | none | jdk | jdkrange | os
Activated(act) ==
  CASE act.kind = "jdk" -> IsPrefixN(act.nums, JDK)                           \* "11" matches 11.0.8, "1.8" does not
    [] act.kind = "jdkrange" -> CmpN(JDK, act.lo, 1) >= 0 /\ (LET c == CmpN(JDK, act.hi, 1) IN c < 0 \/ (c = 0 /\ act.hiIncl))
    [] act.kind = "os" -> (act.field = "family" /\ act.val = "unix") \/ (act.field = "name" /\ act.val = "linux") \/ (act.field = "arch" /\ act.val = "amd64")
    [] OTHER -> FALSE
ActText(act) ==
  CASE act.kind = "jdk" -> [jdk |-> act.text, osfield |-> "", osval |-> "", default |-> FALSE]
    [] act.kind = "jdkrange" -> [jdk |-> act.text, osfield |-> "", osval |-> "", default |-> FALSE]
    [] act.kind = "os" -> [jdk |-> "", osfield |-> act.field, osval |-> act.val, default |-> FALSE]
    [] act.kind = "default" -> [jdk |-> "", osfield |-> "", osval |-> "", default |-> TRUE]
    [] OTHER -> [jdk |-> "", osfield |-> "", osval |-> "", default |-> FALSE]
ActiveProfiles(pom) ==
  LET explicit == SelectSeq(pom.profiles, LAMBDA p : Activated(p.act)) IN
  IF explicit # <<>> THEN explicit ELSE SelectSeq(pom.profiles, LAMBDA p : p.act.kind = "default")
RECURSIVE Cat(_, _)
Cat(ps, f) == IF ps = <<>> THEN <<>> ELSE (IF f = "props" THEN ps[1].props ELSE IF f = "deps" THEN ps[1].deps ELSE ps[1].mgmt) \o Cat(Tail(ps), f)
\* the model after profile injection
Injected(pom) == LET ps == ActiveProfiles(pom) IN
  [pom EXCEPT !.props = pom.props \o Cat(ps, "props"), !.deps = pom.deps \o Cat(ps, "deps"), !.mgmt = pom.mgmt \o Cat(ps, "mgmt")]

(* ---- inheritance ---- *)
DepKey(d) == <<d.g, d.a, IF d.typ = "" THEN "jar" ELSE d.typ, d.cls>>
RECURSIVE Chain(_, _)
Chain(lin, i) == IF i = 0 THEN <<>> ELSE <<Injected(lin[i])>> \o Chain(lin, lin[i].parent)      \* project first, then ancestors
RECURSIVE CatF(_, _)
CatF(ms, f) == IF ms = <<>> THEN <<>> ELSE (IF f = "deps" THEN ms[1].deps ELSE ms[1].mgmt) \o CatF(Tail(ms), f)
\* last definition of a property wins inside one model; a child's definition wins over an ancestor's
PropsOf(chain) ==
  LET all == [i \in 1..Len(chain) |-> chain[i].props]
      names == UNION {{all[i][j].n : j \in 1..Len(all[i])} : i \in 1..Len(chain)}
      owner(n) == CHOOSE i \in 1..Len(chain) : (\E j \in 1..Len(all[i]) : all[i][j].n = n) /\ \A k \in 1..(i - 1) : ~\E j \in 1..Len(all[k]) : all[k][j].n = n
      lastIn(i, n) == all[i][CHOOSE j \in 1..Len(all[i]) : all[i][j].n = n /\ \A k \in (j + 1)..Len(all[i]) : all[i][k].n # n].val
  IN [n \in names |-> lastIn(owner(n), n)]
FirstNonEmpty(chain, f) == LET c == SelectSeq(chain, LAMBDA m : (IF f = "g" THEN m.g ELSE m.v) # "") IN
                           IF c = <<>> THEN "" ELSE (IF f = "g" THEN c[1].g ELSE c[1].v)
Dict(lin) ==
  LET chain == Chain(lin, 1) user == PropsOf(chain)
      g == FirstNonEmpty(chain, "g") v == FirstNonEmpty(chain, "v")
      pg == IF lin[1].parent = 0 THEN "" ELSE lin[lin[1].parent].g
      pv == IF lin[1].parent = 0 THEN "" ELSE lin[lin[1].parent].v
      builtin == [n \in {"project.groupId", "pom.groupId", "project.version", "pom.version", "project.parent.groupId", "pom.parent.groupId",
                         "project.parent.version", "pom.parent.version", "groupId", "version", "parent.groupId", "parent.version"} |->
                    IF n \in {"project.groupId", "pom.groupId", "groupId"} THEN g
                    ELSE IF n \in {"project.version", "pom.version", "version"} THEN v
                    ELSE IF n \in {"project.parent.groupId", "pom.parent.groupId", "parent.groupId"} THEN pg ELSE pv]
      keep == {n \in DOMAIN builtin : builtin[n] # "" /\ ~(n \in {"groupId", "version", "parent.groupId", "parent.version"} /\ n \in DOMAIN user)}
  IN [n \in DOMAIN user \cup keep |-> IF n \in keep THEN <<L(builtin[n])>> ELSE user[n]]
\* dependencies: the project's own first, then every ancestor's; the first declaration of a key keeps its
\* POSITION, and inside ONE model a later duplicate replaces the earlier content (Maven's LinkedHashMap merge)
RECURSIVE DedupeModel(_, _)
DedupeModel(ds, acc) ==
  IF ds = <<>> THEN acc
  ELSE LET d == ds[1] pos == {i \in 1..Len(acc) : DepKey(acc[i]) = DepKey(d)} IN
       DedupeModel(Tail(ds), IF pos = {} THEN Append(acc, d) ELSE [acc EXCEPT ![CHOOSE i \in pos : TRUE] = d])
RECURSIVE FirstWins(_, _)
FirstWins(ds, acc) == IF ds = <<>> THEN acc
                      ELSE FirstWins(Tail(ds), IF \E i \in 1..Len(acc) : DepKey(acc[i]) = DepKey(ds[1]) THEN acc ELSE Append(acc, ds[1]))
RECURSIVE InheritDeps(_, _)
InheritDeps(chain, acc) == IF chain = <<>> THEN acc ELSE InheritDeps(Tail(chain), FirstWins(DedupeModel(chain[1].deps, <<>>), acc))
InterpDep(d, dict) == [d EXCEPT !.v = Interp(d.v, dict)]
EffMgmtOwn(lin) == LET dict == Dict(lin) m == FirstWins(CatF(Chain(lin, 1), "mgmt"), <<>>) IN [i \in 1..Len(m) |-> InterpDep(m[i], dict)]
IsImport(d) == d.scope = "import" /\ d.typ = "pom"
\* BOM import: own (non-import) management first, then each imported BOM's effective management, first wins
\* An imported BOM's own imports belong to ITS effective model: Maven builds that completely (own entries, then its
\* imports, depth first) before it looks at the importer's next import.  Depth-bounded (import cycles are a Maven error).
RECURSIVE ImportAllD(_, _, _, _)
ImportAllD(imports, boms, acc, depth) ==
  IF imports = <<>> \/ depth = 0 THEN acc
  ELSE LET d == imports[1]
           cand == {b \in 1..Len(boms) : boms[b][1].g = d.g /\ boms[b][1].a = d.a /\ <<L(boms[b][1].v)>> = d.v}
           bm == IF cand = {} THEN <<>> ELSE EffMgmtOwn(boms[CHOOSE b \in cand : TRUE])
       IN ImportAllD(Tail(imports), boms,
                     ImportAllD(SelectSeq(bm, IsImport), boms, FirstWins(SelectSeq(bm, LAMBDA x : ~IsImport(x)), acc), depth - 1), depth)
ImportAll(imports, boms, acc) == ImportAllD(imports, boms, acc, 4)
EffMgmt(lin, boms) == LET own == EffMgmtOwn(lin) IN
  ImportAll(SelectSeq(own, IsImport), boms, SelectSeq(own, LAMBDA x : ~IsImport(x)))
Inject(d, mg) == LET hit == {i \in 1..Len(mg) : DepKey(mg[i]) = DepKey(d)} IN
  IF hit = {} THEN d
  ELSE LET m == mg[CHOOSE i \in hit : TRUE] IN
       [d EXCEPT !.v = IF d.v = <<>> THEN m.v ELSE d.v, !.scope = IF d.scope = "" THEN m.scope ELSE d.scope, !.excl = IF d.excl = <<>> THEN m.excl ELSE d.excl]
EffDeps(lin, boms) == LET dict == Dict(lin) mg == EffMgmt(lin, boms) ds == InheritDeps(Chain(lin, 1), <<>>) IN
  [i \in 1..Len(ds) |-> Inject(InterpDep(ds[i], dict), mg)]
Out(d) == [g |-> d.g, a |-> d.a, v |-> TplText(d.v), typ |-> IF d.typ = "" THEN "jar" ELSE d.typ, cls |-> d.cls, scope |-> d.scope, opt |-> d.opt, excl |-> d.excl]
OutSeq(ds) == [i \in 1..Len(ds) |-> Out(ds[i])]
\* Maven fails the whole build on a property cycle reachable from a used field: such lineages are out of domain
HasCycle(lin) == LET dict == Dict(lin) IN
  \E m \in {Chain(lin, 1)[i] : i \in 1..Len(Chain(lin, 1))} : \E d \in {m.deps[i] : i \in 1..Len(m.deps)} \cup {m.mgmt[i] : i \in 1..Len(m.mgmt)} : CyclicT(d.v, dict, {})
=============================================================================
