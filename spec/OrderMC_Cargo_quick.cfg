CONSTANTS
  Tier = "quick"
  SysName = "Cargo"
  DomSource = "enum"
INIT Init
NEXT Next
INVARIANTS Refl Emit
