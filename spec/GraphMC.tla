------------------------------- MODULE GraphMC -------------------------------
(* Enumerates all rooted base graphs up to the bounds (node labels over {a, b} so that     *)
(* duplicates of each other and of the root occur, optional node error, every edge set up   *)
(* to MaxEdges incl. self-loops, an optional parallel edge of another type, an optional     *)
(* second requirement label) and checks on the MODEL that the orbit relation is what the    *)
(* property means: every renumbering of a base graph is Iso to it.  Emits each base graph.  *)
EXTENDS GraphCanon, Json, IOUtils, CSV, SequencesExt
CONSTANTS N, MaxEdges, WithErr, Variants
OutFile == IOEnv.VERIF_OUT
Pairs == (1..N) \X (1..N)
VARIABLES phase, vers, errn, es, variant
Init == phase = 0 /\ vers \in [1..N -> {"a", "b"}] /\ errn \in (IF WithErr THEN 0..N ELSE {0}) /\ es = {} /\ variant = 0
Next == phase = 0 /\ phase' = 1 /\ es' \in {S \in SUBSET Pairs : Cardinality(S) <= MaxEdges} /\ variant' \in Variants
        /\ UNCHANGED <<vers, errn>>
Base ==
  LET eseq == SetToSortSeq(es, LAMBDA x, y : x[1] < y[1] \/ (x[1] = y[1] /\ x[2] < y[2]))
      edges0 == [i \in 1..Len(eseq) |-> [f |-> eseq[i][1], t |-> eseq[i][2], req |-> (IF variant = 2 /\ i = 1 THEN "r2" ELSE "r1"), typ |-> "reg"]]
      edges == IF variant = 1 /\ Len(eseq) > 0 THEN Append(edges0, [edges0[1] EXCEPT !.typ = "dev"]) ELSE edges0
  IN [nodes |-> [i \in 1..N |-> [ver |-> vers[i], errs |-> IF i = errn THEN (IF variant = 0 THEN <<"e1">> ELSE <<"e2", "e1">>) ELSE <<>>]], edges |-> edges]
\* model law: renumbering the non-root nodes and reversing the edge list gives an isomorphic graph
Renumber(g, p) == [nodes |-> [i \in 1..NodeCount(g) |-> g.nodes[CHOOSE j \in 1..NodeCount(g) : p[j] = i]],
                   edges |-> [i \in 1..Len(g.edges) |-> LET e == g.edges[Len(g.edges) + 1 - i] IN [e EXCEPT !.f = p[e.f], !.t = p[e.t]]]]
OrbitIsIso == phase = 1 => \A p \in {q \in [1..N -> 1..N] : q[1] = 1 /\ \A i, j \in 1..N : i # j => q[i] # q[j]} : Iso(Base, Renumber(Base, p))
Emit == phase = 1 => CSVWrite("%1$s", <<ToJson(Base)>>, OutFile)
=============================================================================
