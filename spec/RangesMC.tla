------------------------------ MODULE RangesMC ------------------------------
(* Model run for C03 / C09 / C11: enumerates the requirement catalogue of one system,     *)
(* prints every requirement, and (for the systems with a reference: NPM, Cargo, PyPI,     *)
(* Maven) evaluates the reference Sat on the complete candidate universe.  One TLC state  *)
(* per requirement.  Output: universe file (candidate texts), catalogue file              *)
(* [id, text, ref, expect (indices of satisfying candidates), pair (in the C09 pair set)] *)
EXTENDS Ranges, VersionDomain, Json, IOUtils, SequencesExt, CSV

CONSTANT SysName
UniFile == IOEnv.VERIF_UNI
CatFile == IOEnv.VERIF_CAT

(* ---- candidate universes ---- *)
US == TLCEval(SetToSeq(Universe))                                  \* SemVer-shaped systems
PyUS == TLCEval(SetToSeq({[rel |-> <<a, b, c>>] : a \in 0..3, b \in 0..3, c \in 0..3} \ {[rel |-> <<0, 0, 0>>]}))
\* Maven pool: bounds and candidates (candidates: >= 0 only, property domain)
MvnPool == TLCEval(<<
  MavenAst(<<0>>, "none", "", "none", 0, FALSE, FALSE), MavenAst(<<0, 5>>, "none", "", "none", 0, FALSE, FALSE),
  MavenAst(<<1>>, "none", "", "none", 0, FALSE, FALSE), MavenAst(<<1, 0>>, "none", "", "none", 0, FALSE, FALSE),
  MavenAst(<<1, 0, 1>>, "none", "", "none", 0, FALSE, FALSE), MavenAst(<<1, 5>>, "none", "", "none", 0, FALSE, FALSE),
  MavenAst(<<2>>, "none", "", "none", 0, FALSE, FALSE), MavenAst(<<2, 0>>, "none", "", "none", 0, FALSE, FALSE),
  MavenAst(<<3>>, "none", "", "none", 0, FALSE, FALSE), MavenAst(<<1, 0>>, "-", "alpha", "-", 1, FALSE, FALSE),
  MavenAst(<<1, 0>>, "-", "rc", "none", 0, FALSE, FALSE), MavenAst(<<1, 0>>, "none", "", "none", 0, TRUE, FALSE),
  MavenAst(<<1>>, "-", "sp", "none", 0, FALSE, FALSE), MavenAst(<<2, 0>>, "-", "beta", "", 2, FALSE, FALSE),
  MavenAst(<<1, 5>>, "-", "foo", "none", 0, FALSE, FALSE), MavenAst(<<2, 0>>, "none", "", "none", 0, TRUE, FALSE),
  MavenAst(<<10>>, "none", "", "none", 0, FALSE, FALSE), MavenAst(<<1, 10>>, "none", "", "none", 0, FALSE, FALSE) >>)
MvnItemsTab == TLCEval([i \in 1..Len(MvnPool) |-> MavenItems(MvnPool[i])])
MvnC(i, j) == MavenCmpItems(MvnItemsTab[i], MvnItemsTab[j])
RECURSIVE Inst(_)
\* templates {Nn} of VersionDomain printed with identity atoms (n < 100 in this pool)
MvnT(i) == LET a == MvnPool[i] IN
  JoinStr([k \in 1..Len(a.nums) |-> ToString(a.nums[k])], ".")
  \o (IF a.sq = "none" THEN "" ELSE a.sq \o a.q \o (IF a.sn = "none" THEN "" ELSE a.sn \o ToString(a.m)))
  \o (IF a.snap THEN "-SNAPSHOT" ELSE "")
Inst(x) == x
MvnCands == TLCEval({i \in 1..Len(MvnPool) : MvnC(i, 1) >= 0})

UniTexts == CASE SysName \in {"NPM", "Cargo", "Default"} -> [i \in 1..Len(US) |-> [text |-> VerText(US[i]), rel |-> (US[i].pre = <<>>)]]
              [] SysName = "Go" -> [i \in 1..Len(US) |-> [text |-> "v" \o VerText(US[i]), rel |-> (US[i].pre = <<>>)]]
              [] SysName = "NuGet" -> [i \in 1..Len(US) |-> [text |-> VerText(US[i]), rel |-> (US[i].pre = <<>>)]]
              [] SysName = "PyPI" -> [i \in 1..Len(PyUS) |-> [text |-> JoinStr([k \in 1..3 |-> ToString(PyUS[i].rel[k])], "."), rel |-> TRUE]]
              [] SysName = "Maven" -> [i \in 1..Len(MvnPool) |-> [text |-> MvnT(i), rel |-> (i \in MvnCands)]]

(* ---- catalogues ---- *)
P0 == [n |-> <<>>, pre |-> <<>>, xs |-> "*"]
P(n) == [n |-> n, pre |-> <<>>, xs |-> "x"]
PP(n, pre) == [n |-> n, pre |-> pre, xs |-> "x"]
Cm(op, p) == [op |-> op, p |-> p]
NpmOps == {"", "=", ">", ">=", "<", "<=", "^", "~", "~>"}
NpmParts == {P0, P(<<0>>), P(<<1>>), P(<<2>>), P(<<1, X>>), [n |-> <<1, X, X>>, pre |-> <<>>, xs |-> "*"], [n |-> <<2, X>>, pre |-> <<>>, xs |-> "X"],
             P(<<0, 0>>), P(<<0, 1>>), P(<<1, 0>>), P(<<1, 2>>), P(<<2, 0>>), P(<<1, 2, X>>),
             P(<<0, 0, 0>>), P(<<0, 0, 1>>), P(<<0, 1, 0>>), P(<<0, 1, 2>>), P(<<1, 0, 0>>), P(<<1, 2, 0>>), P(<<1, 2, 3>>), P(<<2, 0, 0>>),
             PP(<<1, 2, 3>>, <<IdStr(1)>>), PP(<<1, 2, 3>>, <<IdStr(1), IdNum(1)>>), PP(<<1, 0, 0>>, <<IdStr(3)>>),
             PP(<<0, 0, 0>>, <<IdStr(1)>>), PP(<<2, 0, 0>>, <<IdNum(0)>>)}
NpmSingles == {<<<<Cm(op, p)>>>> : op \in NpmOps, p \in NpmParts}
\* primitive comparators used for AND / OR combinations
NpmCoreParts == {P(<<1>>), P(<<1, 2>>), P(<<1, 0, 0>>), P(<<1, 2, 3>>), P(<<2, 0, 0>>), P(<<0, 1, 0>>), PP(<<1, 2, 3>>, <<IdStr(1)>>), PP(<<2, 0, 0>>, <<IdNum(0)>>)}
NpmCoreQuick == {Cm(">=", P(<<1, 0, 0>>)), Cm("<", P(<<2, 0, 0>>)), Cm("<", P(<<1>>)), Cm(">", P(<<1, 2>>)), Cm("<=", P(<<1, 2, 3>>)),
                 Cm("^", P(<<1, 2>>)), Cm("~", P(<<1, 2, 3>>)), Cm("", P(<<1, 2, 3>>)), Cm(">=", PP(<<1, 2, 3>>, <<IdStr(1)>>)),
                 Cm("<", PP(<<2, 0, 0>>, <<IdNum(0)>>)), Cm("^", P(<<0, 1, 0>>)), Cm("<", P(<<1, 2>>)), Cm("", P(<<1, 2>>)), Cm("~>", P(<<2>>)),
                 Cm("<", P(<<0, 2>>)), Cm("^", P(<<0, 2>>)), Cm(">=", P(<<0, 1, 1>>))}
NpmCore == IF Tier = "quick" THEN NpmCoreQuick
           ELSE NpmCoreQuick \cup {Cm(op, p) : op \in {">=", ">", "<", "<=", "^", "~", ""}, p \in NpmCoreParts}
NpmAnds == {<<<<a, b>>>> : a \in NpmCore, b \in NpmCore}
NpmOrs == {<<<<a>>, <<b>>>> : a \in NpmCoreQuick, b \in NpmCoreQuick}
HyParts == {P(<<1>>), P(<<1, 2>>), P(<<1, 2, 3>>), P(<<2, 0, 0>>), P(<<0, 1>>), PP(<<1, 2, 3>>, <<IdStr(1)>>), P(<<3>>)}
NpmHyphens == {<<<<[op |-> "-", p |-> a, q |-> b]>>>> : a \in HyParts, b \in HyParts}
NpmMixed == {<<<<Cm(">=", P(<<0, 1, 1>>)), Cm("<", P(<<1>>))>>, <<Cm("~>", P(<<2>>))>>>>,
             <<<<[op |-> "-", p |-> P(<<1>>), q |-> P(<<1, 2>>)]>>, <<Cm("", PP(<<1, 2, 3>>, <<IdStr(1)>>))>>, <<[op |-> "-", p |-> P(<<2>>), q |-> P(<<3>>)]>>>>,
             <<<<Cm(">=", P(<<0>>))>>, <<Cm("<=", PP(<<1, 0, 0>>, <<IdStr(3)>>))>>>>,
             <<<<Cm("^", P(<<1, 2>>)), Cm("<", P(<<1, 3>>)), Cm(">", P(<<1, 2, 0>>))>>>>}
\* intervals with every combination of open / closed ends (nested and abutting ones, same upper bound closed in
\* one and open in the other, an open prerelease lower bound so that spans open at both ends occur)
NpmLowers == {Cm(">=", P(<<1, 0, 0>>)), Cm(">=", P(<<1, 5, 0>>)), Cm(">", P(<<1, 0, 0>>)), Cm(">", PP(<<1, 2, 3>>, <<IdStr(1)>>))}
NpmUppers == {Cm("<", P(<<2, 0, 0>>)), Cm("<=", P(<<2, 0, 0>>)), Cm("<=", P(<<1, 2, 3>>)), Cm("<", P(<<1, 2, 3>>))}
NpmIntervals == {<<lo, hi>> : lo \in NpmLowers, hi \in NpmUppers}
NpmIntervalOrs == {<<a, b>> : a \in NpmIntervals, b \in NpmIntervals}
                  \cup {<<<<[op |-> "-", p |-> P(<<1, 0, 0>>), q |-> P(<<2, 0, 0>>)]>>, a>> : a \in NpmIntervals}
NpmCat == NpmSingles \cup NpmAnds \cup NpmOrs \cup NpmHyphens \cup NpmMixed \cup {<<a>> : a \in NpmIntervals} \cup NpmIntervalOrs
\* pair set for C09 / C11 (union / intersection of every ordered pair is observed)
NpmPairSet == {<<<<c>>>> : c \in NpmCoreQuick} \cup NpmMixed
              \cup {<<<<Cm(">", P(<<2, 0, 0>>))>>>>, <<<<Cm(">=", P(<<1, 0, 0>>)), Cm("<", P(<<2, 0, 0>>))>>>>, <<<<Cm("", P(<<1, 2, 0>>))>>, <<Cm("", P(<<1, 2, 3>>))>>>>,
                    <<<<Cm("", P0)>>>>, <<<<Cm(">=", P(<<2, 0, 0>>)), Cm("<", P(<<3, 0, 0>>))>>>>, <<<<Cm(">=", P(<<1, 2, 0>>)), Cm("<", P(<<2, 0, 0>>))>>>>}
              \cup {<<a>> : a \in NpmIntervals} \cup {<<<<[op |-> "-", p |-> P(<<1, 0, 0>>), q |-> P(<<2, 0, 0>>)]>>>>}
              \cup (IF Tier = "quick" THEN {} ELSE {<<a, b>> : a \in {x \in NpmIntervals : x[1].op = ">="}, b \in {x \in NpmIntervals : x[2].op = "<"}})

CargoOps == {"", "=", ">", ">=", "<", "<=", "~", "^"}
CargoParts == {P(<<0>>), P(<<1>>), P(<<2>>), P(<<0, 0>>), P(<<0, 1>>), P(<<1, 0>>), P(<<1, 2>>), P(<<0, 0, 0>>), P(<<0, 0, 1>>), P(<<0, 1, 2>>),
               P(<<1, 0, 0>>), P(<<1, 2, 3>>), P(<<2, 0, 0>>), PP(<<1, 2, 3>>, <<IdStr(1)>>), PP(<<1, 2, 3>>, <<IdStr(1), IdNum(1)>>), PP(<<1, 0, 0>>, <<IdStr(3)>>), PP(<<0, 0, 0>>, <<IdStr(1)>>)}
CargoSingles == {<<Cm(op, p)>> : op \in CargoOps, p \in CargoParts}
                \cup {<<Cm("*", [n |-> <<>>, pre |-> <<>>, xs |-> "*"])>>, <<Cm("*", [n |-> <<1, X>>, pre |-> <<>>, xs |-> "*"])>>, <<Cm("*", [n |-> <<1, 2, X>>, pre |-> <<>>, xs |-> "*"])>>}
CargoCore == {Cm(">=", P(<<1, 0, 0>>)), Cm("<", P(<<2, 0, 0>>)), Cm("<", P(<<1>>)), Cm(">", P(<<1, 2>>)), Cm("<=", P(<<1, 2, 3>>)), Cm("^", P(<<1, 2>>)),
              Cm("~", P(<<1, 2, 3>>)), Cm("", P(<<1, 2, 3>>)), Cm("=", P(<<1, 2, 3>>)), Cm(">=", PP(<<1, 2, 3>>, <<IdStr(1)>>)), Cm("", P(<<0, 1, 0>>)),
              Cm("<", P(<<1, 2>>)), Cm("=", P(<<1, 2>>)), Cm("<", P(<<0, 2>>)), Cm("^", P(<<0, 2>>)), Cm("<", PP(<<1, 2, 3>>, <<IdStr(3)>>))}
CargoAnds == {<<a, b>> : a \in CargoCore, b \in CargoCore} \cup {<<Cm(">=", P(<<1, 0, 0>>)), Cm("<", P(<<2, 0, 0>>)), Cm("<", P(<<1, 5>>))>>}
CargoIntervals == {<<lo, hi>> : lo \in NpmLowers, hi \in NpmUppers}
CargoCat == CargoSingles \cup CargoAnds \cup CargoIntervals
CargoPairSet == CargoIntervals \cup {<<c>> : c \in CargoCore} \cup {<<Cm(">=", P(<<1, 0, 0>>)), Cm("<", P(<<2, 0, 0>>))>>, <<Cm(">=", P(<<2, 0, 0>>)), Cm("<", P(<<3, 0, 0>>))>>, <<Cm(">", P(<<2, 0, 0>>))>>}

PyV(rel) == [rel |-> rel, star |-> FALSE, pre |-> <<>>, post |-> -1, dev |-> -1]
PyVersions == {PyV(<<1>>), PyV(<<1, 0>>), PyV(<<1, 2>>), PyV(<<1, 2, 3>>), PyV(<<2, 0>>), PyV(<<0, 1>>), PyV(<<1, 0, 0>>), PyV(<<1, 2, 0>>), PyV(<<2>>), PyV(<<3, 3, 3>>),
               [PyV(<<1, 2>>) EXCEPT !.pre = <<1, 1>>], [PyV(<<1, 2>>) EXCEPT !.post = 1], [PyV(<<1, 2>>) EXCEPT !.dev = 1], [PyV(<<2, 0>>) EXCEPT !.pre = <<3, 1>>]}
PyStars == {[PyV(<<1>>) EXCEPT !.star = TRUE], [PyV(<<1, 2>>) EXCEPT !.star = TRUE], [PyV(<<1, 0>>) EXCEPT !.star = TRUE], [PyV(<<0>>) EXCEPT !.star = TRUE]}
PyClauses == {[v EXCEPT !.op = op] : op \in {"==", "!=", "<=", ">=", "<", ">"}, v \in {[op |-> "", rel |-> w.rel, star |-> w.star, pre |-> w.pre, post |-> w.post, dev |-> w.dev] : w \in PyVersions}}
             \cup {[op |-> op, rel |-> w.rel, star |-> TRUE, pre |-> <<>>, post |-> -1, dev |-> -1] : op \in {"==", "!="}, w \in PyStars}
             \cup {[op |-> "~=", rel |-> w.rel, star |-> FALSE, pre |-> w.pre, post |-> w.post, dev |-> w.dev] : w \in {x \in PyVersions : Len(x.rel) >= 2}}
PyCoreOf(S) == {c \in S : c.pre = <<>> /\ c.post = -1 /\ c.dev = -1 /\ c.rel \in {<<1>>, <<1, 0>>, <<1, 2>>, <<1, 2, 3>>, <<2, 0>>, <<1, 2, 0>>}}
PyCat == {<<c>> : c \in PyClauses} \cup {<<a, b>> : a \in PyCoreOf(PyClauses), b \in PyCoreOf(PyClauses)}
         \cup (IF Tier = "quick" THEN {} ELSE {<<a, b, c>> : a \in PyCoreOf(PyClauses), b \in {x \in PyCoreOf(PyClauses) : x.op \in {"!=", "<"}}, c \in {x \in PyCoreOf(PyClauses) : x.op \in {">=", "~="} /\ x.rel = <<1, 2>>}})
PyPairSet == {}

MvnB == {3, 4, 6, 7, 8, 10, 14}           \* pool indices used as range bounds
Rs(lo, li, hi, hj, single) == [lo |-> lo, loIncl |-> li, hi |-> hi, hiIncl |-> hj, single |-> single]
MvnRestrs == {Rs(a, li, b, hj, FALSE) : a \in MvnB, b \in MvnB, li \in BOOLEAN, hj \in BOOLEAN} \cup {Rs(a, TRUE, a, TRUE, TRUE) : a \in MvnB}
             \cup {Rs(a, li, 0, FALSE, FALSE) : a \in MvnB, li \in BOOLEAN} \cup {Rs(0, FALSE, b, hj, FALSE) : b \in MvnB, hj \in BOOLEAN}
             \cup {Rs(0, FALSE, 0, FALSE, FALSE)}
\* Maven rejects ranges that defy version ordering and unions that overlap or are out of order
MvnValidR(r) == (r.lo # 0 /\ r.hi # 0) => (MvnC(r.hi, r.lo) > 0 \/ (MvnC(r.hi, r.lo) = 0 /\ r.loIncl /\ r.hiIncl))
MvnValidU(r, s) == r.hi # 0 /\ s.lo # 0 /\ MvnC(r.hi, s.lo) < 0
MvnCat == {[soft |-> TRUE, v |-> i, rs |-> <<>>] : i \in {3, 6, 10}}
          \cup {[soft |-> FALSE, v |-> 0, rs |-> <<r>>] : r \in {x \in MvnRestrs : MvnValidR(x)}}
          \cup {[soft |-> FALSE, v |-> 0, rs |-> <<r, s>>] : r \in {x \in MvnRestrs : MvnValidR(x) /\ x.lo \in {0, 3, 4}}, s \in {x \in MvnRestrs : MvnValidR(x) /\ x.lo \in {7, 8}}}
MvnCatV == {q \in MvnCat : Len(q.rs) < 2 \/ MvnValidU(q.rs[1], q.rs[2])}

\* systems without a reference (C09 / C11 only): plain texts
GoTexts == {"v1.0.0", "v1.2.3", "v0.2.4", "v2.0.0", "v1.2.3-alpha", "v0.0.0", "v3.1.0", "v1.0.0-rc", "v2.0.0-0", "v0.1.0-alpha.1", "v2.0.0-alpha", "v1.0.0-alpha", "v3.0.0-rc"}
NuGetTexts == {"1.0.0", "[1.0.0]", "[1.0.0,2.0.0)", "(1.0.0,2.0.0]", "[1.2.3,)", "(,2.0.0]", "(,2.0.0)", "1.*", "1.2.*", "[1.0.0-alpha,2.0.0)", "[1.0,2.0]", "*",
               "1.2.3-alpha", "[2.0.0,3.0.0)", "(1.2.3,)", "[0.0.0,1.0.0)", "(1.0.0,2.0.0)", "(1.0,2.0)", "1.2.3.*", "1.*-*", "[1.0.0-alpha,1.0.0-rc]",
               "(1.0.0-alpha,2.0.0)", "1.2.3.4", "[1.2.3.4,2.0.0.0)", "(,1.0.0-rc)"}

Cat == TLCEval(SetToSeq(
  CASE SysName = "NPM" -> {[text |-> NpmText(r), ref |-> TRUE, pair |-> (r \in NpmPairSet), ast |-> r] : r \in NpmCat}
    [] SysName = "Default" -> {[text |-> NpmText(r), ref |-> FALSE, pair |-> (r \in NpmPairSet), ast |-> r] : r \in NpmSingles \cup NpmPairSet \cup NpmHyphens}
    [] SysName = "Cargo" -> {[text |-> CargoText(r), ref |-> TRUE, pair |-> (r \in CargoPairSet), ast |-> r] : r \in CargoCat}
    [] SysName = "PyPI" -> {[text |-> PySpecText(r), ref |-> TRUE, pair |-> FALSE, ast |-> r] : r \in PyCat}
    [] SysName = "Maven" -> {[text |-> MvnText(q, MvnT), ref |-> TRUE, pair |-> FALSE, ast |-> q] : q \in MvnCatV}
    [] SysName = "Go" -> {[text |-> t, ref |-> FALSE, pair |-> TRUE, ast |-> <<>>] : t \in GoTexts}
    [] SysName = "NuGet" -> {[text |-> t, ref |-> FALSE, pair |-> FALSE, ast |-> <<>>] : t \in NuGetTexts}))
NCat == Len(Cat)

Expect(k) ==
  CASE SysName = "NPM" -> {i \in 1..Len(US) : NpmSat(Cat[k].ast, US[i])}
    [] SysName = "Cargo" -> {i \in 1..Len(US) : CargoSat(Cat[k].ast, US[i])}
    [] SysName = "PyPI" -> {i \in 1..Len(PyUS) : PySat(Cat[k].ast, PyUS[i])}
    [] SysName = "Maven" -> {i \in MvnCands : MvnSat(Cat[k].ast, i, MvnC)}
    [] OTHER -> {}

VARIABLES k, exp
Init == k = 0 /\ exp = {} /\ ndJsonSerialize(UniFile, UniTexts)
Next == k = 0 /\ k' \in 1..NCat /\ exp' = Expect(k')
Emit == k # 0 => CSVWrite("%1$s", <<ToJson([id |-> k, text |-> Cat[k].text, ref |-> Cat[k].ref, pair |-> Cat[k].pair,
                                             expect |-> SetToSortSeq(exp, <)])>>, CatFile)
\* two different ASTs must not print to the same text with different meaning (printer sanity)
ASSUME \A i \in 1..NCat : \A j \in 1..NCat : Cat[i].text = Cat[j].text => i = j \/ ~Cat[i].ref \/ Expect(i) = Expect(j)
=============================================================================
