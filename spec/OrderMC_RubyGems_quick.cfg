CONSTANTS
  Tier = "quick"
  SysName = "RubyGems"
  DomSource = "enum"
INIT Init
NEXT Next
INVARIANTS Refl Emit
