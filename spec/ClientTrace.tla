----------------------------- MODULE ClientTrace -----------------------------
(* Trace validation for C12 / C14.                                                        *)
(* MatchFile : per (list, requirement) the distinct results the real MatchRequirement /    *)
(*             LocalClient.MatchingVersions / SortVersions produced over ALL permutations  *)
(*             of the list, judged by ClientModel!MatchOK / SortOK.                        *)
(* HistFile  : histories of AddVersion calls executed on a real LocalClient with the full  *)
(*             observable state logged after every call; each history is consumed as spec   *)
(*             actions of the map-based reference model (one behaviour per history), the    *)
(*             logged observation must agree with the primed model state at every step.     *)
EXTENDS ClientModel, Json, IOUtils, CSV

CONSTANT Mode      \* "match" | "hist"
ObsFile == IOEnv.VERIF_OBS
RejFile == IOEnv.VERIF_REJ
Obs == TLCEval(ndJsonDeserialize(ObsFile))
Rej(law, n, detail) == [law |-> law, n |-> n, detail |-> detail]
E(x) == [v |-> x.v, a |-> x.a]
ESeq(s) == [i \in 1..Len(s) |-> E(s[i])]
ESet(s) == {E(s[i]) : i \in 1..Len(s)}

(* ---------------------------------------------------------------- C12 *)
ClsSeq(sys, s) == [i \in 1..Len(s) |-> Cls(sys, s[i].v)]
MatchRej(n) ==
  LET o == Obs[n] L == ESet(o.entries) IN
  IF o.kind = "match" THEN
       (IF Len(o.outs) # 1 THEN {Rej("permutation-dependent", n, Len(o.outs))} ELSE {})
       \cup {Rej("wrong-result", n, k) : k \in {k \in 1..Len(o.outs) : ~MatchOK(o.sys, o.r, L, ESeq(o.outs[k]))}}
       \cup (IF Len(o.lcouts) # 1 THEN {Rej("client-insertion-order-dependent", n, Len(o.lcouts))} ELSE {})
       \cup {Rej("client-wrong-result", n, k) : k \in {k \in 1..Len(o.lcouts) : ~MatchOK(o.sys, o.r, L, ESeq(o.lcouts[k]))}}
       \cup (IF o.intact THEN {} ELSE {Rej("input-list-corrupted", n, 0)})
  ELSE \* "sort": SortVersions and LocalClient.Versions
       {Rej("sort-wrong", n, k) : k \in {k \in 1..Len(o.outs) : ~SortOK(o.sys, L, ESeq(o.outs[k]))}}
       \cup {Rej("client-list-wrong", n, k) : k \in {k \in 1..Len(o.lcouts) : ~SortOK(o.sys, L, ESeq(o.lcouts[k]))}}
       \cup (IF Cardinality({ClsSeq(o.sys, ESeq(o.outs[k])) : k \in 1..Len(o.outs)}) > 1 THEN {Rej("sort-classes-permutation-dependent", n, 0)} ELSE {})

(* ---------------------------------------------------------------- C14 *)
VARIABLES h, l, known, vers, deps
vars == <<h, l, known, vers, deps>>
EmptyF == [x \in {} |-> {}]
VersOf(vs, p) == IF p \in DOMAIN vs THEN vs[p] ELSE {}
StepRej(n, k, kn, vs, ds) ==       \* observation k of history n against model state (kn, vs, ds)
  LET st == Obs[n].steps[k] sys == Obs[n].sys IN
  UNION {
    LET L == VersOf(vs, p.name) out == ESeq(p.list) IN
      (IF p.found # (p.name \in kn) THEN {Rej("package-known-mismatch", n, k)} ELSE {})
      \cup (IF p.found /\ ~(NoDup(out) /\ SeqSet(out) = L) THEN {Rej("versions-list-content", n, k)} ELSE {})
      \cup (IF p.found /\ NoDup(out) /\ SeqSet(out) = L /\ ~OrderedOK(sys, L, out) THEN {Rej("versions-list-order", n, k)} ELSE {})
    : p \in {st.pkgs[i] : i \in 1..Len(st.pkgs)} }
  \cup UNION {
    LET cur == {e \in VersOf(vs, q.pkg) : e.v = q.v} key == <<q.pkg, q.v>> IN
      (IF q.found # (cur # {}) THEN {Rej("version-lookup-presence", n, k)} ELSE {})
      \cup (IF q.found /\ cur # {} /\ q.a # (CHOOSE e \in cur : TRUE).a THEN {Rej("version-lookup-attributes", n, k)} ELSE {})
      \cup (IF ~q.found /\ cur = {} /\ q.errkind # "notfound" THEN {Rej("not-found-error-kind", n, k)} ELSE {})
      \cup (IF q.depsfound # (key \in DOMAIN ds) THEN {Rej("requirements-presence", n, k)} ELSE {})
      \cup (IF q.depsfound /\ key \in DOMAIN ds /\ ~DepsOrderedOK(sys, DepLists[ds[key]], q.deps) THEN {Rej("requirements-content", n, k)} ELSE {})
    : q \in {st.keys[i] : i \in 1..Len(st.keys)} }

Init == h = 0 /\ l = 0 /\ known = {} /\ vers = EmptyF /\ deps = EmptyF
Start == h = 0 /\ h' \in 1..Len(Obs) /\ l' = 0 /\ UNCHANGED <<known, vers, deps>>
\* IsEvent: the next logged call of history h is consumed by the model's AddVersion action
Step == /\ Mode = "hist" /\ h # 0 /\ l < Len(Obs[h].steps)
        /\ LET op == Obs[h].steps[l + 1].op IN
             IF op.del THEN UNCHANGED <<known, vers, deps>>
             ELSE /\ known' = AddKnown(known, op.pkg, op.d)
                  /\ vers' = AddVers(vers, op.pkg, op.v, op.a)
                  /\ deps' = AddDeps(deps, op.pkg, op.v, op.d)
        /\ l' = l + 1 /\ h' = h
Next == Start \/ Step
Emit ==
  IF Mode = "match" THEN (h = 0 \/ \A r \in MatchRej(h) : CSVWrite("%1$s", <<ToJson(r)>>, RejFile))
  ELSE (l = 0 \/ \A r \in StepRej(h, l, known, vers, deps) : CSVWrite("%1$s", <<ToJson(r)>>, RejFile))
Stats == [records |-> Len(Obs)]
ASSUME CSVWrite("%1$s", <<ToJson([law |-> "stats", n |-> 0, detail |-> 0, stats |-> Stats])>>, RejFile)
=============================================================================
