CONSTANTS
  Tier = "quick"
  SysName = "NuGet"
INIT Init
NEXT Next
INVARIANT Emit
