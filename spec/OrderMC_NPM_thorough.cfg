CONSTANTS
  Tier = "thorough"
  SysName = "NPM"
  DomSource = "enum"
INIT Init
NEXT Next
INVARIANTS Refl Emit
