CONSTANTS
  Tier = "quick"
  Mode = "match"
INIT Init
NEXT Next
INVARIANT Emit
