------------------------------ MODULE LruTrace ------------------------------
(* Trace validation of the real LRU cache (util/resolve/pypi/internal/lru) against Lru.      *)
(* Each record is one Add/Get history executed on a fresh lru.Cache[int,int] of size `max`;  *)
(* after EVERY operation the driver logged the reply of Get and a projection of the concrete *)
(* state: the list walked head->tail (keys, vals) and tail->head (back), the size of the     *)
(* key->node map and whether every list node is the node the map holds for its key.  The     *)
(* history is consumed as Lru actions, one TLC step per operation; the logged reply and the  *)
(* logged state must equal the model after every step.                                        *)
EXTENDS Lru, Json, IOUtils, CSV
Obs == TLCEval(ndJsonDeserialize(IOEnv.VERIF_OBS))
RejFile == IOEnv.VERIF_REJ
Rej(law, n, k) == [law |-> law, n |-> n, k |-> k]
Rev(s) == [i \in 1..Len(s) |-> s[Len(s) + 1 - i]]
ModelKeys(c) == [i \in 1..Len(c) |-> c[i].k]
ModelVals(c) == [i \in 1..Len(c) |-> c[i].v]

VARIABLES h, l, before
Init2 == h = 0 /\ l = 0 /\ cache = <<>> /\ before = <<>> /\ size = 0 /\ hist = <<>>
Start == h = 0 /\ h' \in 1..Len(Obs) /\ l' = 0 /\ size' = Obs[h'].max /\ UNCHANGED <<cache, before, hist>>
Step == h # 0 /\ l < Len(Obs[h].steps)
        /\ cache' = Apply(cache, size, Obs[h].steps[l + 1].op) /\ before' = cache /\ l' = l + 1 /\ UNCHANGED <<h, size, hist>>
Next2 == Start \/ Step

StepRej(n, k) ==
  LET s == Obs[n].steps[k] o == s.op IN
     {Rej("get-reply-differs-from-model", n, k) : x \in {1} \cap
        (IF o.op = "get" /\ (s.ok # Hit(before, o.k) \/ (Hit(before, o.k) /\ s.got # ValueOf(before, o.k))) THEN {1} ELSE {})}
  \cup {Rej("recency-order-differs-from-model", n, k) : x \in {1} \cap (IF s.keys # ModelKeys(cache) THEN {1} ELSE {})}
  \cup {Rej("stored-values-differ-from-model", n, k) : x \in {1} \cap (IF s.keys = ModelKeys(cache) /\ s.vals # ModelVals(cache) THEN {1} ELSE {})}
  \cup {Rej("list-links-inconsistent", n, k) : x \in {1} \cap (IF s.back # Rev(s.keys) THEN {1} ELSE {})}
  \cup {Rej("map-inconsistent-with-list", n, k) : x \in {1} \cap (IF ~s.mapok \/ s.mapn # Len(s.keys) THEN {1} ELSE {})}
  \cup {Rej("capacity-exceeded", n, k) : x \in {1} \cap (IF Len(s.keys) > Obs[n].max THEN {1} ELSE {})}
EndRej(n) == {Rej("panic", n, Len(Obs[n].steps) + 1) : x \in {1} \cap (IF Obs[n].panic # "" THEN {1} ELSE {})}
Emit == \/ h = 0
        \/ (l = 0 /\ \A r \in EndRej(h) : CSVWrite("%1$s", <<ToJson(r)>>, RejFile))
        \/ (l > 0 /\ \A r \in StepRej(h, l) : CSVWrite("%1$s", <<ToJson(r)>>, RejFile))
ASSUME CSVWrite("%1$s", <<ToJson([law |-> "stats", n |-> Len(Obs), k |-> 0])>>, RejFile)
=============================================================================
