CONSTANTS
  Tier = "thorough"
  SysName = "PyPI"
INIT Init
NEXT Next
INVARIANT Emit
