------------------------------- MODULE PomTrace -------------------------------
(* Trace validation for C15: each record is a lineage run through the real pipeline        *)
(* (xml.Decode, MergeProfiles, MergeParent, Interpolate, ProcessDependencies with a BOM       *)
(* getter doing the same) or a property table run through Project.Interpolate; TLC            *)
(* re-evaluates Pom!EffDeps / EffMgmt / Interp on the logged input and compares.              *)
EXTENDS Pom, Json, IOUtils, CSV
Obs == TLCEval(ndJsonDeserialize(IOEnv.VERIF_OBS))
RejFile == IOEnv.VERIF_REJ
KeyOfOut(d) == <<d.g, d.a, d.typ, d.cls>>
Keys(s) == [i \in 1..Len(s) |-> KeyOfOut(s[i])]
HasPlaceholder(v) == \E i \in 1..(Len(v) - 1) : SubSeq(v, i, i + 1) = "${"
\* the recorded finding shapes
DroppedUnresolved(want, got) ==      \* got = want minus exactly the dependencies whose version kept a placeholder
  got = SelectSeq(want, LAMBDA d : ~HasPlaceholder(d.v))
\* The library's two recorded deviations, modelled explicitly so that ONLY they are excused: (F11) inside one POM
\* the first of two declarations of a key is kept where Maven keeps the last one in the first position; (F22) a
\* dependency whose version keeps an unresolved placeholder is dropped (before de-duplication) where Maven keeps it.
RECURSIVE RawDeps(_)
RawDeps(chain) == IF chain = <<>> THEN <<>> ELSE chain[1].deps \o RawDeps(Tail(chain))
\* the same for dependencyManagement: unresolved entries are dropped (in the lineage and in each imported BOM) BEFORE the
\* first-wins merge and the import, so an imported BOM can fill the key the dropped entry would have kept
LibMgmtOwn(lin) == LET dict == Dict(lin) raw == CatF(Chain(lin, 1), "mgmt")
                       itp == [i \in 1..Len(raw) |-> InterpDep(raw[i], dict)] IN FirstWins(SelectSeq(itp, LAMBDA d : Resolved(d.v)), <<>>)
RECURSIVE LibImportAllD(_, _, _, _)
LibImportAllD(imports, boms, acc, depth) ==
  IF imports = <<>> \/ depth = 0 THEN acc
  ELSE LET d == imports[1]
           cand == {b \in 1..Len(boms) : boms[b][1].g = d.g /\ boms[b][1].a = d.a /\ <<L(boms[b][1].v)>> = d.v}
           bm == IF cand = {} THEN <<>> ELSE LibMgmtOwn(boms[CHOOSE b \in cand : TRUE])
       IN LibImportAllD(Tail(imports), boms,
                        LibImportAllD(SelectSeq(bm, IsImport), boms, FirstWins(SelectSeq(bm, LAMBDA x : ~IsImport(x)), acc), depth - 1), depth)
LibImportAll(imports, boms, acc) == LibImportAllD(imports, boms, acc, 4)
LibMgmt(lin, boms) == LET own == LibMgmtOwn(lin) IN LibImportAll(SelectSeq(own, IsImport), boms, SelectSeq(own, LAMBDA x : ~IsImport(x)))
HasUnresolvedMgmt(lin, boms) == (LET dict == Dict(lin) raw == CatF(Chain(lin, 1), "mgmt") IN \E i \in 1..Len(raw) : ~Resolved(Interp(raw[i].v, dict)))
                                \/ \E b \in 1..Len(boms) : LET dict == Dict(boms[b]) raw == CatF(Chain(boms[b], 1), "mgmt") IN \E i \in 1..Len(raw) : ~Resolved(Interp(raw[i].v, dict))
LibDeps(lin, boms) == LET dict == Dict(lin) mg == LibMgmt(lin, boms)
                          raw == RawDeps(Chain(lin, 1))
                          itp == [i \in 1..Len(raw) |-> InterpDep(raw[i], dict)]
                          kept == FirstWins(SelectSeq(itp, LAMBDA d : Resolved(d.v)), <<>>) IN
  [i \in 1..Len(kept) |-> Inject(kept[i], mg)]
HasDupInOnePom(lin) == \E m \in {Chain(lin, 1)[i] : i \in 1..Len(Chain(lin, 1))} : \E i, j \in 1..Len(m.deps) : i # j /\ DepKey(m.deps[i]) = DepKey(m.deps[j])
HasUnresolvedDep(lin) == LET dict == Dict(lin) raw == RawDeps(Chain(lin, 1)) IN \E i \in 1..Len(raw) : ~Resolved(Interp(raw[i].v, dict))
LineageRej(o) ==
  IF ~o.terminated THEN {"pipeline-did-not-terminate"}
  ELSE IF ~o.ok THEN (IF HasCycle(o.lineage) THEN {} ELSE {"pipeline-error-on-a-lineage-maven-builds"})
  ELSE IF HasCycle(o.lineage) THEN {}
  ELSE LET wd == OutSeq(EffDeps(o.lineage, o.boms)) wm == OutSeq(EffMgmt(o.lineage, o.boms)) IN
     (IF o.deps = wd THEN {}
      ELSE IF o.deps = OutSeq(LibDeps(o.lineage, o.boms)) THEN
             (IF HasUnresolvedDep(o.lineage) \/ HasUnresolvedMgmt(o.lineage, o.boms) THEN {"dependency-with-unresolved-placeholder-dropped"} ELSE {})
             \cup (IF HasDupInOnePom(o.lineage) THEN {"duplicate-declaration-in-one-pom-first-kept"} ELSE {})
             \cup (IF ~HasUnresolvedDep(o.lineage) /\ ~HasUnresolvedMgmt(o.lineage, o.boms) /\ ~HasDupInOnePom(o.lineage) THEN {"dependencies-differ-from-maven"} ELSE {})
      ELSE {"dependencies-differ-from-maven"})
     \cup (IF o.mgmt = wm THEN {}
           ELSE IF o.mgmt = OutSeq(LibMgmt(o.lineage, o.boms)) /\ HasUnresolvedMgmt(o.lineage, o.boms) THEN {"dependency-with-unresolved-placeholder-dropped"}
           ELSE {"managed-dependencies-differ-from-maven"})
TableRej(o) ==
  IF ~o.terminated THEN {"interpolation-did-not-terminate"}
  ELSE LET dict == [n \in {"a", "b", "c"} |-> IF n = "a" THEN o.table.a ELSE IF n = "b" THEN o.table.b ELSE o.table.c] IN
       IF \E q \in 1..Len(o.queries) : ~CyclicT(o.queries[q], dict, {}) /\ Resolved(Interp(o.queries[q], dict))
                                        /\ (~o.got[q].kept \/ o.got[q].value # TplText(Interp(o.queries[q], dict)))
       THEN {"interpolation-result-differs"} ELSE {}
VARIABLE row
Init == row = 0
Next == row = 0 /\ row' \in 1..Len(Obs)
Emit == row = 0 \/ \A law \in (IF Obs[row].kind = "lineage" THEN LineageRej(Obs[row]) ELSE TableRej(Obs[row])) :
                      CSVWrite("%1$s", <<ToJson([law |-> law, n |-> row])>>, RejFile)
ASSUME CSVWrite("%1$s", <<ToJson([law |-> "stats", n |-> Len(Obs)])>>, RejFile)
=============================================================================
