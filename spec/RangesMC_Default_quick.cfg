CONSTANTS
  Tier = "quick"
  SysName = "Default"
INIT Init
NEXT Next
INVARIANT Emit
