CONSTANTS
  N = 5
  MaxEdges = 2
  WithErr = FALSE
  Variants = {0}
INIT Init
NEXT Next
INVARIANTS OrbitIsIso Emit
