CONSTANTS
  Tier = "quick"
  Mode = "hist"
INIT Init
NEXT Next
INVARIANT Emit
