CONSTANTS
  Tier = "quick"
  SysName = "NuGet"
  DomSource = "enum"
INIT Init
NEXT Next
INVARIANTS Refl Emit
