CONSTANTS
  N = 2
  MaxEdges = 4
  WithErr = TRUE
  Variants = {0, 1, 2}
INIT Init
NEXT Next
INVARIANTS OrbitIsIso Emit
