INIT Init
NEXT Next
