CONSTANTS
  Tier = "quick"
  SysName = "Composer"
  DomSource = "enum"
INIT Init
NEXT Next
INVARIANTS Refl Emit
