------------------------------ MODULE Pep508MC ------------------------------
EXTENDS Pep508, Json, IOUtils, CSV
CONSTANT AllWs
OutFile == IOEnv.VERIF_OUT
LeafIdx == {i \in 1..Len(Leaves) : InDomain(Leaves[i])}
\* marker trees: single leaves; a and b; a or b; a or b and c; (a or b) and c  over a core subset
Core == {i \in LeafIdx : i \in {1, 6, 13, 14, 18, 22, 23, 32, 36, 37}}
Trees == {Leaves[i] : i \in LeafIdx}
         \cup {And3(Leaves[i], Leaves[j]) : i \in Core, j \in Core} \cup {Or3(Leaves[i], Leaves[j]) : i \in Core, j \in Core}
         \cup {Or3(Leaves[i], And3(Leaves[j], Leaves[k])) : i \in {6, 14, 36}, j \in {1, 13, 37}, k \in {6, 14, 18}}
         \cup {And3(Par(Or3(Leaves[i], Leaves[j])), Leaves[k]) : i \in {6, 14, 36}, j \in {1, 13, 37}, k \in {6, 14, 18}}
WsChoices == IF AllWs THEN [1..7 -> BOOLEAN] ELSE {[i \in 1..7 |-> FALSE], [i \in 1..7 |-> TRUE]} \cup {[i \in 1..7 |-> i = k] : k \in 1..7}
\* names: every sequence of one to three words over the character classes lower / UPPER / digit joined by separator runs
\* (PEP 503: a run of - _ . becomes one '-', letters are lowered; an upper-case letter or a digit ends a run like any other)
NameWords == {W("a", "a"), W("B", "b"), W("1", "1"), W("aB", "ab"), W("Ba", "ba"), W("B1", "b1")}
             \cup (IF AllWs THEN {W("AB", "ab"), W("1B", "1b"), W("a1", "a1"), W("b", "b"), W("A", "a"), W("11", "11")} ELSE {})
NameSeps == {"-", "_", ".", "_.", "-_-"}
VARIABLES kind, item
Init == kind = "start" /\ item = <<>>
Next == kind = "start" /\ \/ (kind' = "req" /\ \E n \in 1..Len(Names), ex \in 1..Len(ExtrasChoices), sp \in 1..Len(SpecChoices), m \in 1..Len(MarkerChoices), ws \in WsChoices :
                                  \E parens \in (IF SpecChoices[sp] = <<>> THEN {FALSE} ELSE BOOLEAN) : item' = <<n, ex, sp, parens, m, ws>>)
                           \/ (kind' = "name" /\ \E n3 \in 1..3, x1 \in NameWords, x2 \in NameWords, x3 \in NameWords, y1 \in NameSeps, y2 \in NameSeps :
                                  item' = [words |-> SubSeq(<<x1, x2, x3>>, 1, n3), seps |-> SubSeq(<<y1, y2>>, 1, n3 - 1)])
                           \/ (kind' = "marker" /\ \E t \in Trees : \E ex \in {{}, {"test"}, {"dev"}} : item' = <<t, ex>>)
Emit == /\ (kind = "req" => CSVWrite("%1$s", <<ToJson([kind |-> "req", text |-> ReqText(item[1], item[2], item[3], item[4], item[5], item[6]),
                                                     expect |-> ReqExpect(item[1], item[2], item[3], item[5])])>>, OutFile))
        /\ (kind = "name" => CSVWrite("%1$s", <<ToJson([kind |-> "req", text |-> NameText(item),
                                                      expect |-> [name |-> NameNorm(item), extras |-> <<>>, spec |-> <<>>, marker |-> ""]])>>, OutFile))
        /\ (kind = "marker" => CSVWrite("%1$s", <<ToJson([kind |-> "marker", text |-> MkText(item[1]), extras |-> SetToSeq(item[2]),
                                                        expect |-> MkEval(item[1], item[2]), ast |-> item[1]])>>, OutFile))
=============================================================================
