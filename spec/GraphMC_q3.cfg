CONSTANTS
  N = 3
  MaxEdges = 3
  WithErr = TRUE
  Variants = {0, 1, 2}
INIT Init
NEXT Next
INVARIANTS OrbitIsIso Emit
