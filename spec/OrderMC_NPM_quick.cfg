CONSTANTS
  Tier = "quick"
  SysName = "NPM"
  DomSource = "enum"
INIT Init
NEXT Next
INVARIANTS Refl Emit
