---------------------------- MODULE PipStepTrace ----------------------------
(* Step-level trace validation of the real PyPI resolver against PipResolve.tla.                   *)
(* Built with the verif tag the resolver reports every round of its resolution loop (hook            *)
(* pypi.VerifStep): the package chosen for pinning and what happened - "pin" with the version,       *)
(* "backtrack", "impossible" - and "done" with the number of pins.  Each event is consumed by the     *)
(* action of PipResolve it corresponds to (Round / Finish), with the logged fields bound to the      *)
(* model's state before and after; building the initial criteria (Start) is a silent step.  A       *)
(* "start" event carrying the universe re-initialises the model.  Single path, deadlock checking     *)
(* on: an event the model cannot take stops TLC at that line.                                        *)
EXTENDS PipResolveMC
Trace == TLCEval(ndJsonDeserialize(IOEnv.VERIF_TRACE))
VARIABLE l
tvars == <<prvars, l>>
Ev == Trace[l]
IsEvent(e) == l <= Len(Trace) /\ Ev.ev = e /\ l' = l + 1
TRoot == [name |-> "root", v |-> 1]
TInit == l = 2 /\ Trace[1].ev = "start" /\ PRInit(Trace[1].universe, TRoot)
TStart == /\ IsEvent("start") /\ phase \in {"done", "impossible"}
          /\ U' = Ev.universe /\ root' = TRoot /\ states' = <<>> /\ phase' = "start" /\ rounds' = 0
          /\ result' = [gerr |-> FALSE, nodes |-> <<>>, edges |-> {}] /\ repinned' = FALSE
TSilentStart == Start /\ UNCHANGED l
TRound == /\ IsEvent("round") /\ Round
          /\ Chosen(Top) = Ev.name
          /\ CASE Ev.outcome = "pin" -> phase' = "rounds" /\ Len(states') = Len(states) + 1 /\ PinnedV(states'[Len(states')], Ev.name) = Ev.v
               [] Ev.outcome = "backtrack" -> phase' = "rounds" /\ Len(states') <= Len(states)
               [] Ev.outcome = "impossible" -> phase' = "impossible"
TDone == IsEvent("done") /\ Finish /\ Len(Top.mapping) = Ev.pins
TEnd == l > Len(Trace) /\ phase \in {"done", "impossible"} /\ UNCHANGED tvars
TNext == TStart \/ TSilentStart \/ TRound \/ TDone \/ TEnd
=============================================================================
