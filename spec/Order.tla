------------------------------- MODULE Order -------------------------------
(* Reference models of version ORDER for the ecosystems deps.dev implements.            *)
(* Written from the ecosystems' published definitions (SemVer 2.0 §11, NuGet SemVer2,   *)
(* PEP 440 / packaging._cmpkey, Gem::Version#<=>, Maven ComparableVersion 3.8.6), NOT   *)
(* from deps.dev's source.  Atoms are symbolic: numerals are integers that the models   *)
(* only compare (so they may be ranks into a per-run table), identifiers are records    *)
(* [k, n, r] with k = "n" (numeric, value n) or "s" (alphanumeric, ASCII rank r).       *)
EXTENDS Integers, Sequences, FiniteSets, TLC

Sgn(x) == IF x < 0 THEN -1 ELSE IF x > 0 THEN 1 ELSE 0
Pick(r, rest) == IF r # 0 THEN r ELSE rest          \* evaluate r once (see DESIGN App. C)
Max2(a, b) == IF a > b THEN a ELSE b

(* ---------------------------------------------------------------- numbers *)
RECURSIVE CmpNumsFrom(_, _, _)
CmpNumsFrom(x, y, i) ==          \* zero-padded lexicographic comparison of numeral lists
  IF i > Len(x) /\ i > Len(y) THEN 0
  ELSE LET a == IF i <= Len(x) THEN x[i] ELSE 0
           b == IF i <= Len(y) THEN y[i] ELSE 0
       IN IF a # b THEN Sgn(a - b) ELSE CmpNumsFrom(x, y, i + 1)
CmpNums(x, y) == CmpNumsFrom(x, y, 1)

(* ------------------------------------------------ SemVer 2.0 identifiers *)
\* numeric < alphanumeric; numeric numerically; alphanumeric by ASCII rank.
CmpIdent(a, b) ==
  IF a.k = "n" /\ b.k = "n" THEN Sgn(a.n - b.n)
  ELSE IF a.k = "n" THEN -1
  ELSE IF b.k = "n" THEN 1
  ELSE Sgn(a.r - b.r)

RECURSIVE CmpPreFrom(_, _, _)
CmpPreFrom(p, q, i) ==           \* both non-empty: a larger set of fields wins when prefix equal
  IF i > Len(p) /\ i > Len(q) THEN 0
  ELSE IF i > Len(p) THEN -1
  ELSE IF i > Len(q) THEN 1
  ELSE Pick(CmpIdent(p[i], q[i]), CmpPreFrom(p, q, i + 1))

\* key = [nums |-> Seq(Int), pre |-> Seq(ident)]
SemVerCmp(a, b) ==
  Pick(CmpNums(a.nums, b.nums),
       IF a.pre = <<>> /\ b.pre = <<>> THEN 0
       ELSE IF a.pre = <<>> THEN 1
       ELSE IF b.pre = <<>> THEN -1
       ELSE CmpPreFrom(a.pre, b.pre, 1))

(* ------------------------------------------------------------- PEP 440 *)
\* key = [epoch, rel : Seq(Int), pre : <<>> or <<phase, n>> (phase 1=a 2=b 3=rc),
\*        post : -1 (absent) or n, dev : -1 (absent) or n, local : Seq(ident) (<<>> absent)]
\* packaging._cmpkey: pre := -inf if (no pre, no post, dev) ; +inf if no pre ;
\*                    post := -inf if absent ; dev := +inf if absent ; local := -inf if absent,
\*                    else tuple of (n, "") or (-inf, s): strings < numbers, shorter prefix first.
PreKey(k) == IF k.pre = <<>> THEN (IF k.post = -1 /\ k.dev # -1 THEN <<0, 0>> ELSE <<4, 0>>) ELSE k.pre
CmpPair(p, q) == Pick(Sgn(p[1] - q[1]), Sgn(p[2] - q[2]))
DevKey(k) == IF k.dev = -1 THEN <<1, 0>> ELSE <<0, k.dev>>
CmpLocalSeg(a, b) ==
  IF a.k = "n" /\ b.k = "n" THEN Sgn(a.n - b.n)
  ELSE IF a.k = "n" THEN 1
  ELSE IF b.k = "n" THEN -1
  ELSE Sgn(a.r - b.r)
RECURSIVE CmpLocalFrom(_, _, _)
CmpLocalFrom(p, q, i) ==
  IF i > Len(p) /\ i > Len(q) THEN 0
  ELSE IF i > Len(p) THEN -1
  ELSE IF i > Len(q) THEN 1
  ELSE Pick(CmpLocalSeg(p[i], q[i]), CmpLocalFrom(p, q, i + 1))
Pep440Cmp(a, b) ==
  Pick(Sgn(a.epoch - b.epoch),
  Pick(CmpNums(a.rel, b.rel),
  Pick(CmpPair(PreKey(a), PreKey(b)),
  Pick(Sgn(a.post - b.post),
  Pick(CmpPair(DevKey(a), DevKey(b)),
       CmpLocalFrom(a.local, b.local, 1))))))

(* ------------------------------------------------------------ RubyGems *)
\* key = [segs : Seq(ident)] : the result of Gem::Version#_segments (scan /[0-9]+|[a-z]+/i after
\* "-" -> ".pre.").  canonical_segments: split at the first string segment, drop trailing zeros
\* of each part, concatenate.  <=>: pad with 0; String < Numeric; else compare.
IsZeroSeg(s) == s.k = "n" /\ s.n = 0
RECURSIVE DropTrailingZeros(_)
DropTrailingZeros(s) == IF s # <<>> /\ IsZeroSeg(s[Len(s)]) THEN DropTrailingZeros(SubSeq(s, 1, Len(s) - 1)) ELSE s
RECURSIVE FirstStr(_, _)
FirstStr(s, i) == IF i > Len(s) THEN Len(s) + 1 ELSE IF s[i].k = "s" THEN i ELSE FirstStr(s, i + 1)
GemCanonSegs(s) == LET f == FirstStr(s, 1) IN
  DropTrailingZeros(SubSeq(s, 1, f - 1)) \o DropTrailingZeros(SubSeq(s, f, Len(s)))
ZeroSeg == [k |-> "n", n |-> 0, r |-> 0]
GemCmpSeg(a, b) ==
  IF a.k = "s" /\ b.k = "n" THEN -1
  ELSE IF a.k = "n" /\ b.k = "s" THEN 1
  ELSE IF a.k = "n" THEN Sgn(a.n - b.n)
  ELSE Sgn(a.r - b.r)
RECURSIVE GemCmpFrom(_, _, _)
GemCmpFrom(x, y, i) ==
  IF i > Len(x) /\ i > Len(y) THEN 0
  ELSE LET a == IF i <= Len(x) THEN x[i] ELSE ZeroSeg
           b == IF i <= Len(y) THEN y[i] ELSE ZeroSeg
       IN Pick(GemCmpSeg(a, b), GemCmpFrom(x, y, i + 1))
GemCmp(a, b) == GemCmpFrom(GemCanonSegs(a.segs), GemCanonSegs(b.segs), 1)
GemIsPrerelease(a) == \E i \in 1..Len(a.segs) : a.segs[i].k = "s"

(* --------------------------------------------------------------- Maven *)
\* ComparableVersion (3.8.6 rules).  AST:
\*   [nums : Seq(Int), sq, q, qr, sn, m, snap]
\*   sq \in {"none", "-", ".", ""} separator before the qualifier ("none": no qualifier)
\*   q : lower-cased qualifier text ; qr : ASCII rank of q among unknown qualifiers
\*   sn \in {"none", "-", ".", ""} separator before the qualifier's number m ; snap : BOOLEAN
\* Items: I(n) integer, S(c) string with comparable-qualifier c, L(seq) list.
MI(n) == [t |-> "i", v |-> n, l |-> <<>>]
MS(c) == [t |-> "s", v |-> c, l |-> <<>>]
ML(s) == [t |-> "l", v |-> 0, l |-> s]
\* comparableQualifier: index in (alpha beta milestone rc snapshot "" sp) x 10, unknown = 70 + rank
MavenCQ(q, qr) ==
  CASE q = "alpha" -> 10 [] q = "beta" -> 20 [] q = "milestone" -> 30
    [] q \in {"rc", "cr"} -> 40 [] q = "snapshot" -> 50
    [] q \in {"", "ga", "final", "release"} -> 60 [] q = "sp" -> 70
    [] OTHER -> 80 + qr
MavenAlias(q, digitFollows) ==
  IF digitFollows THEN (CASE q = "a" -> "alpha" [] q = "b" -> "beta" [] q = "m" -> "milestone" [] OTHER -> q) ELSE q
RECURSIVE MavenItemIsNull(_)
MavenItemIsNull(it) == CASE it.t = "i" -> it.v = 0 [] it.t = "s" -> it.v = 60 [] it.t = "l" -> it.l = <<>>
RECURSIVE MavenNorm(_)
MavenNorm(s) ==                   \* ListItem.normalize: drop trailing nulls, stop at first non-list non-null
  IF s = <<>> THEN s
  ELSE LET last == s[Len(s)] IN
       IF MavenItemIsNull(last) THEN MavenNorm(SubSeq(s, 1, Len(s) - 1))
       ELSE IF last.t = "l" THEN MavenNorm(SubSeq(s, 1, Len(s) - 1)) \o <<last>>
       ELSE s
MavenTail(ast) == IF ast.snap THEN <<ML(<<MS(50)>>)>> ELSE <<>>
MavenQualPart(ast) ==
  IF ast.sq = "none" THEN MavenTail(ast)
  ELSE LET q == MavenAlias(ast.q, ast.sn = "")
           c == MavenCQ(q, ast.qr)
           afterQ == IF ast.sn = "none" THEN <<MS(c)>> \o MavenTail(ast)
                     ELSE IF ast.sn = "." THEN <<MS(c), MI(ast.m)>> \o MavenTail(ast)
                     ELSE <<MS(c), ML(MavenNorm(<<MI(ast.m)>> \o MavenTail(ast)))>>
       IN IF ast.sq = "." THEN afterQ ELSE <<ML(MavenNorm(afterQ))>>
MavenItems(ast) == MavenNorm([i \in 1..Len(ast.nums) |-> MI(ast.nums[i])] \o MavenQualPart(ast))

RECURSIVE MavenCmpNull(_), MavenCmpNullList(_, _), MavenCmpItem(_, _), MavenCmpList(_, _, _)
MavenCmpNull(it) ==               \* compareTo(null)
  CASE it.t = "i" -> (IF it.v = 0 THEN 0 ELSE 1)
    [] it.t = "s" -> Sgn(it.v - 60)
    [] it.t = "l" -> MavenCmpNullList(it.l, 1)
MavenCmpNullList(s, i) ==         \* 3.8.6: first non-zero result of element.compareTo(null)
  IF i > Len(s) THEN 0 ELSE Pick(MavenCmpNull(s[i]), MavenCmpNullList(s, i + 1))
MavenCmpItem(a, b) ==
  CASE a.t = "i" -> (IF b.t = "i" THEN Sgn(a.v - b.v) ELSE 1)
    [] a.t = "s" -> (IF b.t = "i" THEN -1 ELSE IF b.t = "s" THEN Sgn(a.v - b.v) ELSE -1)
    [] a.t = "l" -> (IF b.t = "i" THEN -1 ELSE IF b.t = "s" THEN 1 ELSE MavenCmpList(a.l, b.l, 1))
MavenCmpList(x, y, i) ==
  IF i > Len(x) /\ i > Len(y) THEN 0
  ELSE Pick(IF i > Len(x) THEN -MavenCmpNull(y[i])
            ELSE IF i > Len(y) THEN MavenCmpNull(x[i])
            ELSE MavenCmpItem(x[i], y[i]),
            MavenCmpList(x, y, i + 1))
MavenCmpItems(x, y) == MavenCmpList(x, y, 1)
MavenCmp(a, b) == MavenCmpItems(MavenItems(a), MavenItems(b))

(* ---------------------------------------------------------- dispatcher *)
\* kind \in {"semver", "pep440", "gem", "maven"} ; keys as described above (maven keys carry
\* the pre-computed item list in field items so that it is computed once per version).
RefCmp(kind, a, b) ==
  CASE kind = "semver" -> SemVerCmp(a, b)
    [] kind = "pep440" -> Pep440Cmp(a, b)
    [] kind = "gem"    -> GemCmp(a, b)
    [] kind = "maven"  -> MavenCmpItems(a.items, b.items)

=============================================================================
