------------------------------ MODULE ClientMC ------------------------------
(* Model run for C12 / C14.                                                              *)
(* Mode "match":  enumerates every list (set of pool entries with attribute variants,     *)
(*                size <= MaxList) per system and emits it with the requirement catalogue. *)
(* Mode "client": explores the map-based reference model of the in-memory client over all *)
(*                histories of AddVersion calls up to MaxHist, checks its invariants, and  *)
(*                emits every maximal history for replay into the real LocalClient.        *)
EXTENDS ClientModel, Json, IOUtils, CSV

CONSTANTS Mode, MaxList, MaxHist
OutFile == IOEnv.VERIF_OUT
Systems3 == {"NPM", "PyPI", "Maven"}

(* ---- match mode ---- *)
Entry(sys, e) == [v |-> e.v, a |-> e.a, text |-> Pool(sys)[e.v].text]
\* attribute assignments: at most one entry tagged latest, at most one tagged beta, rest plain
Assignments(S) ==
  {f \in [S -> {1, 2, 3}] : Cardinality({x \in S : f[x] = 2}) <= 1 /\ Cardinality({x \in S : f[x] = 3}) <= 1}
Lists(sys) == UNION {{ {[v |-> x, a |-> f[x]] : x \in S} : f \in Assignments(S)} :
                     S \in {T \in SUBSET (1..Len(Pool(sys))) : Cardinality(T) >= 1 /\ Cardinality(T) <= MaxList}}
\* out of domain (DESIGN 5 C12): an npm tag/string requirement with more than one candidate is judged
\* leniently by ClientModel!MatchOK, nothing to exclude here.

(* ---- client mode ---- *)
Pkgs == {"p", "q"}
VSel(sys) == CASE sys = "NPM" -> {1, 6} [] sys = "PyPI" -> {1, 4} [] sys = "Maven" -> {2, 5}
Ops(sys) == [pkg : Pkgs, v : VSel(sys), a : (IF sys = "NPM" THEN {1, 2} ELSE {1, 4}), del : BOOLEAN, d : (IF MaxHist <= 2 THEN 1..3 ELSE {1, 2})]

VARIABLES sysv, phase, lst, known, vers, deps, hist
vars == <<sysv, phase, lst, known, vers, deps, hist>>
EmptyF == [x \in {} |-> {}]
Init == sysv \in Systems3 /\ phase = "start" /\ lst = {} /\ known = {} /\ vers = EmptyF /\ deps = EmptyF /\ hist = <<>>

PickList == Mode = "match" /\ phase = "start" /\ phase' = "list" /\ lst' \in Lists(sysv)
            /\ UNCHANGED <<sysv, known, vers, deps, hist>>
Add(op) == Mode = "client" /\ phase \in {"start", "hist"} /\ Len(hist) < MaxHist /\ phase' = "hist"
           /\ hist' = Append(hist, op)
           /\ (IF op.del THEN UNCHANGED <<known, vers, deps>>
               ELSE /\ known' = AddKnown(known, op.pkg, op.d)
                    /\ vers' = AddVers(vers, op.pkg, op.v, op.a)
                    /\ deps' = AddDeps(deps, op.pkg, op.v, op.d))
           /\ UNCHANGED <<sysv, lst>>
Next == PickList \/ \E op \in Ops(sysv) : Add(op)

\* invariants of the reference model (design level)
KeysOnce == \A p \in DOMAIN vers : \A e \in vers[p] : \A f \in vers[p] : e.v = f.v => e = f
DepsKnown == \A k \in DOMAIN deps : DepNames(deps[k]) \subseteq known /\ k[1] \in known
VersKnown == DOMAIN vers \subseteq known
LastWins == \A i \in 1..Len(hist) : (~hist[i].del /\ ~\E j \in (i + 1)..Len(hist) : ~hist[j].del /\ hist[j].pkg = hist[i].pkg /\ hist[j].v = hist[i].v)
               => [v |-> hist[i].v, a |-> hist[i].a] \in vers[hist[i].pkg] /\ deps[<<hist[i].pkg, hist[i].v>>] = hist[i].d

Emit ==
  /\ (phase = "list" => CSVWrite("%1$s", <<ToJson([kind |-> "match", sys |-> sysv,
        entries |-> SetToSeq({Entry(sysv, e) : e \in lst}),
        reqs |-> [r \in 1..Len(Reqs(sysv)) |-> Reqs(sysv)[r].text]])>>, OutFile))
  /\ (phase = "hist" /\ Len(hist) = MaxHist => CSVWrite("%1$s", <<ToJson([kind |-> "hist", sys |-> sysv,
        ops |-> [i \in 1..Len(hist) |-> [pkg |-> hist[i].pkg, v |-> hist[i].v, text |-> Pool(sysv)[hist[i].v].text,
                                          a |-> hist[i].a, del |-> hist[i].del, d |-> hist[i].d,
                                          deps |-> DepLists[hist[i].d]]]])>>, OutFile))
=============================================================================
