---------------------------- MODULE PipResolveMC ----------------------------
(* Explores PipResolve on EVERY universe of a small family: packages pa {1.0, 2.0}, pb {1.0, 2.0a1,   *)
(* 2.0}, pc {1.0, 2.0}; root 1.0 / 2.0.  Requirement lists are drawn from small catalogues that       *)
(* contain what makes the resolver work hard: conflicts that force backtracking, a pin replaced in     *)
(* place, prereleases named by one requirement only, extras and extra-guarded requirements, a          *)
(* requirement on the root package.  Checks on the MODEL: bounded rounds, stack shape, pins are         *)
(* candidates, and DoneLaws (a returned graph breaks C08 only through the recorded deviations).         *)
(* Emits every universe with the model's result for replay into the real resolver.                      *)
EXTENDS PipResolve, CSV
CONSTANT Family
OutFile == IOEnv.VERIF_OUT
\* requirement indices (PipModel!PRq): 1 >=1.0  2 ==1.1  3 <2.0  7 >=2.0a1  9 >2.0  11 >=0  13 ==2.0  14 >=2.0
\* marker indices (PipModel!PM): 6 extra == "test"   15 (extra == "test" or sys_platform == "linux")   3 sys_platform == "win32"
Rq(name, r, m, ex) == [name |-> name, r |-> r, m |-> m, extras |-> ex]
AOpts == {<<>>, <<Rq("pb", 3, 0, <<>>)>>, <<Rq("pb", 14, 0, <<>>)>>, <<Rq("pc", 11, 6, <<>>)>>, <<Rq("pb", 7, 0, <<>>)>>}
          \cup (IF Family = "full" THEN {<<Rq("root", 14, 0, <<>>)>>, <<Rq("pc", 13, 15, <<>>)>>, <<Rq("pb", 13, 0, <<>>)>>} ELSE {})   \* ==2.0: another preference rating
BOpts == {<<>>, <<Rq("pc", 3, 0, <<>>)>>, <<Rq("pc", 14, 0, <<>>)>>, <<Rq("pa", 3, 0, <<"test">>)>>}
          \cup (IF Family = "full" THEN {<<Rq("pa", 14, 0, <<>>)>>, <<Rq("pc", 11, 3, <<>>)>>} ELSE {})
COpts == {<<>>, <<Rq("pb", 3, 0, <<>>)>>, <<Rq("pa", 11, 0, <<"test">>)>>} \cup (IF Family = "full" THEN {<<Rq("pb", 7, 0, <<>>)>>} ELSE {})
RootOpts == {<<Rq("pa", 11, 0, <<>>), Rq("pb", 11, 0, <<>>)>>, <<Rq("pb", 11, 0, <<>>), Rq("pa", 11, 0, <<>>)>>, <<Rq("pa", 1, 0, <<>>), Rq("pc", 11, 0, <<>>)>>,
             <<Rq("pa", 11, 0, <<"test">>), Rq("pb", 3, 0, <<>>)>>, <<Rq("pc", 11, 0, <<>>), Rq("pb", 11, 0, <<>>)>>}
UP(name, vs) == [name |-> name, versions |-> vs]
UV(v, deps) == [v |-> v, deps |-> deps]
Univ(rl, a1, a5, b1, b4, b5, c1, c5) == << UP("pa", <<UV(1, a1), UV(5, a5)>>), UP("pb", <<UV(1, b1), UV(4, b4), UV(5, b5)>>), UP("pc", <<UV(1, c1), UV(5, c5)>>),
                                           UP("root", <<UV(1, rl), UV(5, <<>>)>>) >>
\* nested quantifiers, not one set of universes: TLC enumerates the initial states lazily
Init == \E rl \in RootOpts, a1 \in (IF Family = "full" THEN AOpts ELSE {<<>>, <<Rq("pb", 3, 0, <<>>)>>}), a5 \in AOpts,
           b1 \in (IF Family = "full" THEN {<<>>, <<Rq("pc", 14, 0, <<>>)>>, <<Rq("pa", 3, 0, <<"test">>)>>} ELSE {<<>>}), b4 \in BOpts, b5 \in BOpts,
           c1 \in (IF Family = "full" THEN {<<>>, <<Rq("pb", 3, 0, <<>>)>>} ELSE {<<>>}), c5 \in COpts :
              PRInit(Univ(rl, a1, a5, b1, b4, b5, c1, c5), [name |-> "root", v |-> 1])
Next == PRNext
Emit == (phase \in {"done", "impossible"}) =>
          CSVWrite("%1$s", <<ToJson([universe |-> U, root |-> root, rounds |-> rounds,
                                      model |-> [gerr |-> result.gerr, nodes |-> result.nodes, edges |-> SetToSeq(result.edges)]])>>, OutFile)
\* liveness on the model: under weak fairness of the step relation every run stops (checked in the quick configuration)
Spec == Init /\ [][Next]_prvars /\ WF_prvars(Next)
EventuallyStops == <>(phase \in {"done", "impossible"})
=============================================================================
