---------------------------- MODULE MavenResolve ----------------------------
(* The Maven resolver of util/resolve/maven as a state machine, one action per step of the code:  *)
(*   Dequeue   - pop the breadth-first queue, read the node's declarations (imports)                *)
(*   Declare   - process ONE declaration of the current node: exclusion test, dependencyManagement,   *)
(*               record the requirement, findMatch over everything recorded for the artifact key,    *)
(*               then: node error | edge to the already chosen version | INCOMPATIBLE (restart) |     *)
(*               reuse of an existing node | new node + enqueue                                       *)
(*   Restart   - errIncompatible: the attempt is thrown away, the requirements map is KEPT            *)
(*   Finish    - queue empty                                                                          *)
(* Single-registry resolution (the multi-registry second pass is out of this model).  The           *)
(* universe U, versions and requirements are those of MavenModel.tla, so the final graph can be      *)
(* judged by MavenModel!MavenViolations and compared with what the real resolver returns.            *)
EXTENDS MavenModel, TLC
CONSTANT MaxAttempts
VARIABLES U, reqs, attempt, phase, nodes, edges, todo, conc, resolved, first, cur, decls, di
mrvars == <<U, reqs, attempt, phase, nodes, edges, todo, conc, resolved, first, cur, decls, di>>
Root == [name |-> "g0:root", v |-> 1]
Keys(u) == UNION {UNION {{KeyOfDep(d) : d \in El(e.deps)} : e \in El(p.versions)} : p \in El(u)}
EdgeScope(d) == IF d.scope \in {"test", "provided", "runtime"} THEN d.scope ELSE ""
MkEdge(f, t, d, r, sel) == [f |-> f, t |-> t, r |-> r, scope |-> EdgeScope(d), opt |-> d.opt, test |-> (d.scope = "test"), typ |-> d.typ, cls |-> d.cls, sel |-> sel, excl |-> d.excl]

(* ---- findMatch: the preferred version for the requirements recorded so far (in recording order) ---- *)
Have(name) == IF HasArt(U, name) THEN {e.v : e \in El(ArtOf(U, name).versions)} ELSE {}
Highest(S) == CHOOSE i \in S : \A j \in S : MVCmp(i, j) >= 0
FirstHard(rs) == IF \E k \in 1..Len(rs) : ~IsSoft(rs[k]) THEN (CHOOSE k \in 1..Len(rs) : ~IsSoft(rs[k]) /\ \A j \in 1..(k - 1) : IsSoft(rs[j])) - 1 ELSE -1   \* 0-based, as hardIdx
\* result: [kind |-> "version", v] | [kind |-> "nomatch"] | [kind |-> "fatal"]
FindMatch(name, rs) ==
  LET softs == SelectSeq(rs, IsSoft)
      hards == {rs[k] : k \in {k \in 1..Len(rs) : ~IsSoft(rs[k])}}
      hardIdx == FirstHard(rs)
      all(i) == \A h \in hards : MSat[h][i]
      listed == {i \in Have(name) : all(i)}
      RECURSIVE Walk(_)
      Walk(i) ==      \* i: 0-based index into softs
        IF i >= Len(softs) THEN (IF Len(softs) = hardIdx /\ listed # {} THEN [kind |-> "version", v |-> Highest(listed)] ELSE [kind |-> "nomatch", v |-> 0])
        ELSE IF i = hardIdx /\ listed # {} THEN [kind |-> "version", v |-> Highest(listed)]
        ELSE LET sv == MVRq[softs[i + 1]].v IN
             IF all(sv) THEN (IF sv \in Have(name) THEN [kind |-> "version", v |-> sv] ELSE [kind |-> "fatal", v |-> 0])   \* a soft version is fetched directly: missing = resolution error
             ELSE Walk(i + 1)
  IN IF \E h \in hards : ~\E i \in Have(name) : MSat[h][i] THEN [kind |-> "fatal", v |-> 0]     \* a range that matches no listed version is an error
     ELSE Walk(0)

(* ---- attempts ---- *)
StartAttempt == /\ nodes' = <<[name |-> Root.name, v |-> Root.v, errs |-> <<>>]>> /\ edges' = <<>>
                /\ todo' = <<[n |-> 1, key |-> <<Root.name, "", "">>, excl |-> {}, incl |-> FALSE]>>
                /\ conc' = {<<<<Root.name, "", "">>, Root.v, 1>>} /\ resolved' = {<<Root.name, "", "">>}
                /\ first' = TRUE /\ cur' = 0 /\ decls' = <<>> /\ di' = 0 /\ phase' = "dequeue"
Imports(n, isFirst) == LET ds == VerOfArt(U, nodes[n].name, nodes[n].v).deps IN
  SelectSeq(ds, LAMBDA d : ~d.mgmt /\ (isFirst \/ ~RootOnly(d)))
Dequeue == /\ phase = "dequeue" /\ todo # <<>>
           /\ cur' = Head(todo) /\ todo' = Tail(todo)
           /\ decls' = (IF Head(todo).incl THEN <<>> ELSE Imports(Head(todo).n, first)) /\ di' = 1
           /\ phase' = "declare" /\ UNCHANGED <<U, reqs, attempt, nodes, edges, conc, resolved, first>>
EndNode == /\ phase = "declare" /\ di > Len(decls)
           /\ phase' = "dequeue" /\ first' = FALSE /\ UNCHANGED <<U, reqs, attempt, nodes, edges, todo, conc, resolved, cur, decls, di>>
Declare ==
  /\ phase = "declare" /\ di <= Len(decls)
  /\ LET d == decls[di]
         key == KeyOfDep(d)
         r == IF ~first /\ \E m \in Mgmt(U, Root) : KeyOfDep(m) = key THEN (CHOOSE m \in Mgmt(U, Root) : KeyOfDep(m) = key).r ELSE d.r
         rs1 == IF \E k \in 1..Len(reqs[key]) : reqs[key][k] = r THEN reqs[key] ELSE Append(reqs[key], r)
         m == FindMatch(d.name, rs1)
     IN IF DepExcluded(cur.excl, d) THEN di' = di + 1 /\ UNCHANGED <<U, reqs, attempt, phase, nodes, edges, todo, conc, resolved, first, cur, decls>>
        ELSE IF m.kind = "fatal" THEN phase' = "fatal" /\ reqs' = [reqs EXCEPT ![key] = rs1] /\ UNCHANGED <<U, attempt, nodes, edges, todo, conc, resolved, first, cur, decls, di>>
        ELSE IF m.kind = "nomatch" THEN
             /\ nodes' = [nodes EXCEPT ![cur.n].errs = Append(@, [name |-> d.name, r |-> r])]
             /\ reqs' = [reqs EXCEPT ![key] = rs1] /\ di' = di + 1
             /\ UNCHANGED <<U, attempt, phase, edges, todo, conc, resolved, first, cur, decls>>
        ELSE IF \E c \in conc : c[1] = key /\ c[2] = m.v THEN          \* this artifact is already at that version
             /\ edges' = Append(edges, MkEdge(cur.n, (CHOOSE c \in conc : c[1] = key /\ c[2] = m.v)[3], d, r, FALSE))
             /\ reqs' = [reqs EXCEPT ![key] = rs1] /\ di' = di + 1
             /\ UNCHANGED <<U, attempt, phase, nodes, todo, conc, resolved, first, cur, decls>>
        ELSE IF key \in resolved THEN                                  \* resolved to another version: incompatible, restart
             /\ reqs' = [reqs EXCEPT ![key] = Append(rs1, r)]          \* the code appends the requirement once more before giving up
             /\ phase' = "incompatible"
             /\ UNCHANGED <<U, attempt, nodes, edges, todo, conc, resolved, first, cur, decls, di>>
        ELSE IF \E k \in 1..Len(nodes) : nodes[k].name = d.name /\ nodes[k].v = m.v THEN   \* node exists under another artifact key: reuse, do not expand again
             LET id == CHOOSE k \in 1..Len(nodes) : nodes[k].name = d.name /\ nodes[k].v = m.v IN
             /\ edges' = Append(edges, MkEdge(cur.n, id, d, r, FALSE))
             /\ conc' = conc \cup {<<key, m.v, id>>} /\ resolved' = resolved \cup {key}
             /\ reqs' = [reqs EXCEPT ![key] = rs1] /\ di' = di + 1
             /\ UNCHANGED <<U, attempt, phase, nodes, todo, first, cur, decls>>
        ELSE LET id == Len(nodes) + 1 IN
             /\ nodes' = Append(nodes, [name |-> d.name, v |-> m.v, errs |-> <<>>])
             /\ edges' = Append(edges, MkEdge(cur.n, id, d, r, TRUE))
             /\ todo' = Append(todo, [n |-> id, key |-> key, excl |-> (IF d.excl # <<>> THEN El(d.excl) \cup cur.excl ELSE cur.excl), incl |-> WarLike(d.typ)])
             /\ conc' = conc \cup {<<key, m.v, id>>} /\ resolved' = resolved \cup {key}
             /\ reqs' = [reqs EXCEPT ![key] = rs1] /\ di' = di + 1
             /\ UNCHANGED <<U, attempt, phase, first, cur, decls>>
Restart == /\ phase = "incompatible" /\ attempt < MaxAttempts
           /\ attempt' = attempt + 1 /\ StartAttempt /\ UNCHANGED <<U, reqs>>
Finish == /\ phase = "dequeue" /\ todo = <<>> /\ phase' = "done"
          /\ UNCHANGED <<U, reqs, attempt, nodes, edges, todo, conc, resolved, first, cur, decls, di>>
MRNext == Dequeue \/ Declare \/ EndNode \/ Restart \/ Finish
MRInit(u) == /\ U = u /\ reqs = [k \in Keys(u) |-> <<>>] /\ attempt = 1
             /\ nodes = <<[name |-> Root.name, v |-> Root.v, errs |-> <<>>]>> /\ edges = <<>>
             /\ todo = <<[n |-> 1, key |-> <<Root.name, "", "">>, excl |-> {}, incl |-> FALSE]>>
             /\ conc = {<<<<Root.name, "", "">>, Root.v, 1>>} /\ resolved = {<<Root.name, "", "">>}
             /\ first = TRUE /\ cur = 0 /\ decls = <<>> /\ di = 0 /\ phase = "dequeue"

(* ---- what the design guarantees ---- *)
Graph == [nodes |-> nodes, edges |-> edges]
\* the attempt bound is never reached on the explored universes (the code allows 100 restarts)
Terminates == ~(phase = "incompatible" /\ attempt = MaxAttempts)
\* every law of C07 except nearest-wins holds for every graph the algorithm returns ...
StructuralLaws == {"two-versions-of-one-artifact", "range-edge-outside-range", "non-root-test-optional-provided-followed", "war-ear-rar-traversed",
                   "excluded-artifact-reached", "management-not-applied", "management-applied-to-root-declaration", "declaration-neither-edge-nor-error", "unreachable-node"}
DoneStructural == phase = "done" => \A x \in MavenViolations(U, Root, Graph, FALSE) : x[1] \notin StructuralLaws
\* where the nearest-wins deviation comes from: a resolution that never restarted obeys every law of C07, nearest-wins included
DoneAllLawsWithoutRestart == (phase = "done" /\ attempt = 1) => MavenViolations(U, Root, Graph, FALSE) = {}
\* ... and nearest-wins does NOT hold in general: TLC finds the shortest universe of the family on which a requirement recorded in an
\* abandoned attempt decides a version (finding C07-F25); checked by a separate configuration that is EXPECTED to fail
DoneNearest == phase = "done" => \A x \in MavenViolations(U, Root, Graph, FALSE) : x[1] \in StructuralLaws
=============================================================================
