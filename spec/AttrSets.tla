------------------------------ MODULE AttrSets ------------------------------
(* C19: dependency types and version attribute sets are VALUES.                          *)
(* Model: three slots, each holding a set value [flags, kv]; operations SetVal, AddFlag,  *)
(* Clone(dst, src).  Slots are independent values in the model: whatever is done to one   *)
(* never shows in another.  (The Go struct copy that shares the map is deliberately not    *)
(* an operation of the property; see DESIGN 4.2.)                                          *)
EXTENDS Integers, Sequences, FiniteSets, TLC
CONSTANTS Flags, Keys, Vals, MaxOps
Slots == 1..3
Empty == [flags |-> {}, kv |-> [k \in {} |-> ""]]
SetVal(s, k, v) == [s EXCEPT !.kv = [x \in DOMAIN s.kv \cup {k} |-> IF x = k THEN v ELSE s.kv[x]]]
AddFlag(s, f) == [s EXCEPT !.flags = s.flags \cup {f}]
Regular(s) == s.flags = {} /\ DOMAIN s.kv = {}

Ops == [op : {"set"}, slot : Slots, key : Keys, val : Vals, flag : {""}, src : {0}]
       \cup [op : {"flag"}, slot : Slots, key : {""}, val : {""}, flag : Flags, src : {0}]
       \cup {o \in [op : {"clone"}, slot : Slots, key : {""}, val : {""}, flag : {""}, src : Slots] : o.slot # o.src}
Apply(st, o) ==
  CASE o.op = "set" -> [st EXCEPT ![o.slot] = SetVal(st[o.slot], o.key, o.val)]
    [] o.op = "flag" -> [st EXCEPT ![o.slot] = AddFlag(st[o.slot], o.flag)]
    [] o.op = "clone" -> [st EXCEPT ![o.slot] = st[o.src]]

VARIABLES slots, hist
Init == slots = [i \in Slots |-> Empty] /\ hist = <<>>
Next == Len(hist) < MaxOps /\ \E o \in Ops : slots' = Apply(slots, o) /\ hist' = Append(hist, o)
=============================================================================
