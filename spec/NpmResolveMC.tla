---------------------------- MODULE NpmResolveMC ----------------------------
(* Explores NpmResolve on EVERY universe of a small family: pa {1.0.0, 2.0.0}, pb {1.0.0, 1.1.0,    *)
(* 2.0.0}, pc {1.0.0, 2.0.0}; requirement lists from catalogues with what makes hoisting interesting: *)
(* conflicting ranges on one package from different depths, "*", cycles, an optional duplicate of a   *)
(* regular declaration, dev / peer declarations, a latest tag below the highest version, a            *)
(* deprecated highest version.  Checks on the MODEL: one entry per name in every directory at every   *)
(* step, and every clause of C06 on every returned (graph, tree).  Emits every universe with the      *)
(* model's graph and tree for replay into the real resolver.                                          *)
EXTENDS NpmResolve, Json, IOUtils, CSV
CONSTANT Family
OutFile == IOEnv.VERIF_OUT
\* requirement indices (NpmModel!NR): 1 *   2 ^1.0.0   4 ^2.0.0   5 >=1.1.0   12 latest   16 <=1.1.0
Rq(name, r, kind) == [name |-> name, r |-> r, kind |-> kind, alias |-> ""]
Al(name, r, alias) == [name |-> name, r |-> r, kind |-> "reg", alias |-> alias]      \* npm:name@range installed as alias
AOpts == {<<>>, <<Rq("pb", 2, "reg")>>, <<Rq("pb", 4, "reg")>>, <<Rq("pb", 1, "reg"), Rq("pc", 2, "reg")>>, <<Rq("pb", 5, "reg")>>}
          \cup (IF Family = "full" THEN {<<Rq("pb", 2, "reg"), Rq("pb", 4, "opt")>>, <<Rq("pc", 4, "peer"), Rq("pb", 16, "reg")>>, <<Rq("pb", 12, "reg")>>,
                                         <<Al("pb", 2, "pc")>>, <<Rq("pc", 2, "reg"), Al("pb", 2, "px")>>} ELSE {})
BOpts == {<<>>, <<Rq("pc", 2, "reg")>>, <<Rq("pc", 4, "reg")>>, <<Rq("pa", 1, "reg")>>}
          \cup (IF Family = "full" THEN {<<Rq("pa", 4, "reg"), Rq("pc", 1, "dev")>>, <<Rq("pc", 1, "bundle")>>} ELSE {})
COpts == {<<>>, <<Rq("pb", 2, "reg")>>, <<Rq("pb", 4, "reg")>>} \cup (IF Family = "full" THEN {<<Rq("pa", 2, "reg")>>} ELSE {})
RootOpts == {<<Rq("pa", 1, "reg"), Rq("pb", 2, "reg")>>, <<Rq("pa", 2, "reg"), Rq("pc", 1, "reg")>>, <<Rq("pa", 4, "reg"), Rq("pb", 4, "reg"), Rq("pc", 2, "reg")>>,
             <<Rq("pb", 1, "reg"), Rq("pc", 4, "reg")>>} \cup (IF Family = "full" THEN {<<Rq("pa", 1, "reg"), Al("pc", 2, "pb")>>} ELSE {})
UP(name, vs) == [name |-> name, versions |-> vs]
UV(v, latest, depr, deps) == [v |-> v, latest |-> latest, dep |-> depr, deps |-> deps]
Univ(rl, a1, a2, b1, b6, b9, c1, c9, lat, depr) ==
            << UP("pa", <<UV(4, FALSE, FALSE, a1), UV(9, FALSE, FALSE, a2)>>),
               UP("pb", <<UV(4, FALSE, FALSE, b1), UV(6, lat, FALSE, b6), UV(9, FALSE, FALSE, b9)>>),
               UP("pc", <<UV(4, FALSE, FALSE, c1), UV(9, FALSE, depr, c9)>>),
               UP("root", <<UV(4, FALSE, FALSE, rl)>>) >>
\* nested quantifiers, not one set of universes: TLC enumerates the initial states lazily
Init == \E rl \in RootOpts, a1 \in ({<<>>, <<Rq("pb", 2, "reg")>>} \cup (IF Family = "full" THEN {<<Rq("pb", 2, "reg"), Rq("pb", 4, "opt")>>} ELSE {})), a2 \in AOpts,
           b1 \in (IF Family = "full" THEN {<<>>, <<Rq("pc", 4, "reg")>>} ELSE {<<>>}), b6 \in BOpts, b9 \in BOpts,
           c1 \in {<<>>, <<Rq("pb", 4, "reg")>>}, c9 \in COpts, lat \in (IF Family = "full" THEN BOOLEAN ELSE {FALSE}), depr \in (IF Family = "full" THEN BOOLEAN ELSE {FALSE}) :
              NRInit(Univ(rl, a1, a2, b1, b6, b9, c1, c9, lat, depr), [name |-> "root", v |-> 4])
Next == NRNext
TreeOut == [x \in 1..Len(tree) |-> [gid |-> tree[x].gid, pgid |-> IF tree[x].parent = 0 THEN 0 ELSE tree[tree[x].parent].gid]]
Emit == (phase \in {"done", "fatal"}) =>
          CSVWrite("%1$s", <<ToJson([universe |-> U, root |-> [name |-> "root", v |-> 4],
                                      model |-> [fatal |-> (phase = "fatal"), nodes |-> gnodes, edges |-> gedges, tree |-> TreeOut]])>>, OutFile)
\* liveness on the model: under weak fairness of the step relation every run stops (checked in the quick configuration)
Spec == Init /\ [][Next]_nrvars /\ WF_nrvars(Next)
EventuallyStops == <>(phase \in {"done", "fatal"})
=============================================================================
