CONSTANTS
  Tier = "thorough"
  SysName = "RubyGems"
  DomSource = "enum"
INIT Init
NEXT Next
INVARIANTS Refl Emit
