CONSTANTS
  Keys = {1, 2, 3, 4}
  Vals = {1}
  Sizes = {1, 2, 3}
  MaxOps = 6
INIT Init
NEXT Next
INVARIANTS Bounded DistinctKeys Faithful LruMeaning RecencyOrder
PROPERTIES GetNeverChangesContent AddEvictsAtMostOne EvictsOnlyTheTail
CHECK_DEADLOCK FALSE
