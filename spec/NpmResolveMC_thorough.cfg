CONSTANTS Family = "full"
INIT Init
NEXT Next
INVARIANTS OneNamePerDirectory DoneValid Emit
