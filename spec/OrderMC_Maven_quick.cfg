CONSTANTS
  Tier = "quick"
  SysName = "Maven"
  DomSource = "enum"
INIT Init
NEXT Next
INVARIANTS Refl Emit
