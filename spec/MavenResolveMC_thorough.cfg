CONSTANTS MaxAttempts = 8 Family = "full" Tier = "quick"
INIT Init
NEXT Next
INVARIANTS Terminates DoneStructural DoneAllLawsWithoutRestart Emit
