------------------------------- MODULE Pep508 -------------------------------
(* C16: Python requirement strings and environment markers follow PEP 508 / packaging.    *)
(* Part A: requirement ASTs with every PEP 508 whitespace position switchable; expected      *)
(*         fields = normalised name, extras set, specifier clause set, marker text.           *)
(* Part B: marker ASTs over the fixed target environment; Eval follows packaging's            *)
(*         markers._eval_op: version comparison when operator + right-hand VALUE form a valid  *)
(*         specifier (an unparsable left value is then simply not contained), otherwise Python *)
(*         string semantics; `in` / `not in` substring; `===` case-insensitive equality;       *)
(*         `extra == "x"` true iff x was requested.                                            *)
(* Strings cannot be ordered or searched by TLC: every leaf carries the three relational facts *)
(* about its two string values (ord, sub, ieq); the orchestrator re-checks these facts against  *)
(* real Python string semantics before anything is judged.                                      *)
EXTENDS Ranges, SequencesExt

(* ------------------------------------------------------------ Part A *)
\* a name: sequence of words [t, l] (text, lower-cased text) separated by runs of - _ .
NameText(n) == JoinS([i \in 1..(2 * Len(n.words) - 1) |-> IF i % 2 = 1 THEN n.words[(i + 1) \div 2].t ELSE n.seps[i \div 2]], "")
NameNorm(n) == JoinS([i \in 1..Len(n.words) |-> n.words[i].l], "-")
W(t, l) == [t |-> t, l |-> l]
Names == << [words |-> <<W("foo", "foo")>>, seps |-> <<>>], [words |-> <<W("Foo", "foo"), W("Bar", "bar")>>, seps |-> <<"_">>],
            [words |-> <<W("FOO", "foo"), W("bar", "bar")>>, seps |-> <<"--__..">>], [words |-> <<W("a", "a"), W("B1", "b1"), W("c", "c")>>, seps |-> <<".", "-">>],
            [words |-> <<W("zope", "zope"), W("interface", "interface")>>, seps |-> <<".">>], [words |-> <<W("X", "x")>>, seps |-> <<>>] >>
ExtrasChoices == << <<>>, <<"test">>, <<"a", "b">>, <<"Dev", "x-y", "z_1">> >>
SpecChoices == << <<>>, <<">=1.0">>, <<"==2.0.*">>, <<">=1.0", "!=1.5", "<2">>, <<"~=3.6", "!=3.8.1">> >>
MarkerChoices == << "", "python_version >= \"3.6\"", "extra == \"test\" and sys_platform != \"win32\"", "os_name == 'posix'" >>
Sp(b) == IF b THEN " " ELSE ""
\* ws : seven switches (before name, after name, inside brackets, after extras, around commas, before ';', after ';')
ReqText(n, ex, sp, parens, m, ws) ==
  Sp(ws[1]) \o NameText(Names[n]) \o Sp(ws[2])
  \o (IF ExtrasChoices[ex] = <<>> THEN "" ELSE "[" \o Sp(ws[3]) \o JoinS(ExtrasChoices[ex], Sp(ws[3]) \o "," \o Sp(ws[3])) \o Sp(ws[3]) \o "]" \o Sp(ws[4]))
  \o (IF SpecChoices[sp] = <<>> THEN "" ELSE (IF parens THEN "(" ELSE "") \o JoinS(SpecChoices[sp], Sp(ws[5]) \o "," \o Sp(ws[5])) \o (IF parens THEN ")" ELSE ""))
  \o (IF MarkerChoices[m] = "" THEN "" ELSE Sp(ws[6]) \o ";" \o Sp(ws[7]) \o MarkerChoices[m])
ReqExpect(n, ex, sp, m) == [name |-> NameNorm(Names[n]), extras |-> ExtrasChoices[ex], spec |-> SpecChoices[sp], marker |-> MarkerChoices[m]]

(* ------------------------------------------------------------ Part B *)
\* environment of util/resolve/pypi/internal.Markers (values the orchestrator also reads from the Go package)
\* operand: [var, s, ver] : var = "" for a literal ; s the string value ; ver the PEP 440 release tuple or <<>> when s is no version
Var(name, s, ver) == [var |-> name, s |-> s, ver |-> ver]
Lit(s, ver) == [var |-> "", s |-> s, ver |-> ver]
PyVer == Var("python_version", "3.9", <<3, 9>>)
PyFull == Var("python_full_version", "3.9.6", <<3, 9, 6>>)
ImplVer == Var("implementation_version", "3.9.6", <<3, 9, 6>>)
SysPlat == Var("sys_platform", "linux", <<>>)
OsName == Var("os_name", "posix", <<>>)
Machine == Var("platform_machine", "x86_64", <<>>)
PyImpl == Var("platform_python_implementation", "CPython", <<>>)
ImplName == Var("implementation_name", "cpython", <<>>)
PlatSys == Var("platform_system", "Linux", <<>>)
PlatRel == Var("platform_release", "6.9.10-1rodete5-amd64", <<>>)
Extra == Var("extra", "", <<>>)
\* leaf: [l, op, r, ord, sub, ieq] : ord = sign of Python string comparison l.s ? r.s ; sub = l.s in r.s ; ieq = case-insensitive equality
Leaf(l, op, r, ord, sub, ieq) == [t |-> "leaf", l |-> l, op |-> op, r |-> r, ord |-> ord, sub |-> sub, ieq |-> ieq]
VersionOps == {"<", "<=", "==", "!=", ">=", ">", "~="}
SpecValid(op, r) == op \in VersionOps /\ r.ver # <<>> /\ (op = "~=" => Len(r.ver) >= 2)
LeafEval(x, extras) ==
  IF x.l.var = "extra" THEN x.r.s \in extras
  ELSE IF x.r.var = "extra" THEN x.l.s \in extras
  ELSE IF x.op = "===" THEN x.ieq
  ELSE IF SpecValid(x.op, x.r) THEN
         (x.l.ver # <<>> /\ PyClauseSat([op |-> x.op, rel |-> x.r.ver, star |-> FALSE, pre |-> <<>>, post |-> -1, dev |-> -1], [rel |-> x.l.ver]))
  ELSE CASE x.op = "==" -> x.ord = 0 [] x.op = "!=" -> x.ord # 0 [] x.op = "<" -> x.ord < 0 [] x.op = "<=" -> x.ord <= 0
         [] x.op = ">" -> x.ord > 0 [] x.op = ">=" -> x.ord >= 0 [] x.op = "in" -> x.sub [] x.op = "not in" -> ~x.sub
And3(a, b) == [t |-> "and", a |-> a, b |-> b]
Or3(a, b) == [t |-> "or", a |-> a, b |-> b]
Par(a) == [t |-> "par", a |-> a, b |-> a]
RECURSIVE MkText(_), MkEval(_, _)
OperandText(o, q) == IF o.var # "" THEN o.var ELSE q \o o.s \o q
MkText(m) == CASE m.t = "leaf" -> OperandText(m.l, "\"") \o " " \o m.op \o " " \o OperandText(m.r, "'")
               [] m.t = "and" -> MkText(m.a) \o " and " \o MkText(m.b)
               [] m.t = "or" -> MkText(m.a) \o " or " \o MkText(m.b)
               [] m.t = "par" -> "(" \o MkText(m.a) \o ")"
MkEval(m, extras) == CASE m.t = "leaf" -> LeafEval(m, extras)
                       [] m.t = "and" -> MkEval(m.a, extras) /\ MkEval(m.b, extras)
                       [] m.t = "or" -> MkEval(m.a, extras) \/ MkEval(m.b, extras)
                       [] m.t = "par" -> MkEval(m.a, extras)
\* `a or b and c` parses as a or (b and c): the AST constructors below are only combined in ways whose text
\* re-parses to the same tree under Python precedence (and binds tighter than or; parentheses explicit).
Leaves == <<
  Leaf(PyVer, ">=", Lit("3.6", <<3, 6>>), 1, FALSE, FALSE), Leaf(PyVer, "<", Lit("3.10", <<3, 10>>), 1, FALSE, FALSE),
  Leaf(PyVer, "==", Lit("3.9", <<3, 9>>), 0, TRUE, TRUE), Leaf(PyVer, "!=", Lit("3.9.0", <<3, 9, 0>>), -1, TRUE, FALSE),
  Leaf(PyVer, "~=", Lit("3.7", <<3, 7>>), 1, FALSE, FALSE), Leaf(PyVer, "<=", Lit("2.7", <<2, 7>>), 1, FALSE, FALSE),
  Leaf(PyFull, ">", Lit("3.9.5", <<3, 9, 5>>), 1, FALSE, FALSE), Leaf(PyFull, "<", Lit("3.9.6", <<3, 9, 6>>), 0, TRUE, TRUE),
  Leaf(PyFull, "~=", Lit("3.9.0", <<3, 9, 0>>), 1, FALSE, FALSE), Leaf(ImplVer, ">=", Lit("3", <<3>>), 1, FALSE, FALSE),
  Leaf(Lit("3.6", <<3, 6>>), "<=", PyVer, -1, FALSE, FALSE), Leaf(Lit("3.10", <<3, 10>>), "<", PyVer, -1, FALSE, FALSE),
  Leaf(SysPlat, "==", Lit("linux", <<>>), 0, TRUE, TRUE), Leaf(SysPlat, "==", Lit("win32", <<>>), -1, FALSE, FALSE),
  Leaf(SysPlat, "!=", Lit("darwin", <<>>), 1, FALSE, FALSE), Leaf(SysPlat, "==", Lit("Linux", <<>>), 1, FALSE, TRUE),
  Leaf(SysPlat, "===", Lit("Linux", <<>>), 1, FALSE, TRUE), Leaf(OsName, "==", Lit("posix", <<>>), 0, TRUE, TRUE),
  Leaf(OsName, "!=", Lit("nt", <<>>), 1, FALSE, FALSE), Leaf(OsName, "<", Lit("q", <<>>), -1, FALSE, FALSE), Leaf(OsName, ">=", Lit("posiy", <<>>), -1, FALSE, FALSE),
  Leaf(Lit("lin", <<>>), "in", SysPlat, -1, TRUE, FALSE), Leaf(Lit("win", <<>>), "in", SysPlat, 1, FALSE, FALSE),
  Leaf(Lit("win", <<>>), "not in", SysPlat, 1, FALSE, FALSE), Leaf(SysPlat, "in", Lit("linux darwin", <<>>), -1, TRUE, FALSE),
  \* not in where exactly one operand is a proper substring of the other (swapping needle and haystack changes the answer)
  Leaf(Lit("lin", <<>>), "not in", SysPlat, -1, TRUE, FALSE), Leaf(SysPlat, "not in", Lit("win32 linux darwin", <<>>), -1, TRUE, FALSE),
  Leaf(SysPlat, "in", Lit("lin", <<>>), 1, FALSE, FALSE),
  Leaf(Machine, "==", Lit("x86_64", <<>>), 0, TRUE, TRUE), Leaf(Lit("86", <<86>>), "in", Machine, -1, TRUE, FALSE),
  Leaf(PyImpl, "==", Lit("CPython", <<>>), 0, TRUE, TRUE), Leaf(PyImpl, "==", Lit("cpython", <<>>), -1, FALSE, TRUE),
  Leaf(ImplName, "!=", Lit("pypy", <<>>), -1, FALSE, FALSE), Leaf(PlatSys, "==", Lit("Linux", <<>>), 0, TRUE, TRUE),
  Leaf(PlatRel, ">=", Lit("5", <<5>>), 1, FALSE, FALSE), Leaf(PlatRel, "<", Lit("7", <<7>>), -1, FALSE, FALSE),
  Leaf(PlatRel, "==", Lit("6.9.10-1rodete5-amd64", <<>>), 0, TRUE, TRUE), Leaf(Lit("rodete", <<>>), "in", PlatRel, 1, TRUE, FALSE),
  Leaf(Extra, "==", Lit("test", <<>>), 0, FALSE, FALSE), Leaf(Extra, "==", Lit("dev", <<>>), 0, FALSE, FALSE), Leaf(Lit("test", <<>>), "==", Extra, 0, FALSE, FALSE),
  Leaf(PyVer, ">=", Lit("3.6.*", <<>>), 1, FALSE, FALSE) >>
\* out of domain (DESIGN 6.8): literal-vs-literal comparisons; comparisons on which packaging 21.3 and 26.3 disagree
\* (platform_version > "#0"); `~=` with a non-version or one-component right-hand side (packaging raises).
\* Also out of domain: ordering comparisons (< <= > >=) between non-version strings (21.3 compares the strings,
\* 26.3 answers False) and `===` on non-versions (26.3 raises).
InDomain(x) == /\ ~(x.op = "~=" /\ ~SpecValid("~=", x.r))
               /\ ~(x.r.ver = <<>> /\ x.r.s = "3.6.*")
               /\ ~(x.op \in {"<", "<=", ">", ">="} /\ ~SpecValid(x.op, x.r) /\ x.l.var # "extra" /\ x.r.var # "extra")
               /\ x.op # "==="
=============================================================================
