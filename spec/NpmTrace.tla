------------------------------ MODULE NpmTrace ------------------------------
(* Trace validation for C06: each record is one real resolution (universe, root, graph as  *)
(* returned, install tree from the verif hook); judged by NpmModel!NpmViolations.           *)
EXTENDS NpmModel, Json, IOUtils, CSV
Obs == TLCEval(ndJsonDeserialize(IOEnv.VERIF_OBS))
RejFile == IOEnv.VERIF_REJ
TablesFile == IOEnv.VERIF_TABLES
VARIABLE row
Init == row = 0
Next == row = 0 /\ row' \in 1..Len(Obs)
\* records replayed from NpmResolveMC carry what the algorithm model NpmResolve.tla returns: graph nodes in creation order,
\* the set of edges, and the install tree as (directory, parent directory) pairs by graph id.  The real resolver must return
\* the same; a difference is information (the verdict on C06 is always the clauses on the REAL graph and tree).
HasModel(o) == "model" \in DOMAIN o
AsSet(s) == {s[i] : i \in 1..Len(s)}
RealTree(o) == {[gid |-> o.tree[x].gid, pgid |-> IF o.tree[x].parent = 0 THEN 0 ELSE o.tree[o.tree[x].parent].gid] : x \in 1..Len(o.tree)}
ModelDiff(o) == IF ~HasModel(o) THEN {}
                ELSE IF o.model.fatal # (~o.ok) THEN {"info-resolver-error-differs-from-algorithm-model"}
                ELSE IF ~o.ok THEN {}
                ELSE IF o.graph.nodes # o.model.nodes \/ AsSet(o.graph.edges) # AsSet(o.model.edges) THEN {"info-graph-differs-from-algorithm-model"}
                ELSE IF RealTree(o) # AsSet(o.model.tree) THEN {"info-install-tree-differs-from-algorithm-model"}
                ELSE {}
LawsOK(o) == o.ok => \A x \in NpmViolations(o.universe, o.graph, o.tree) : CSVWrite("%1$s", <<ToJson([law |-> x[1], n |-> row, k |-> x[2]])>>, RejFile)
ModelOK(o) == \A l \in ModelDiff(o) : CSVWrite("%1$s", <<ToJson([law |-> l, n |-> row, k |-> 0])>>, RejFile)
Emit == row = 0 \/ (LawsOK(Obs[row]) /\ ModelOK(Obs[row]))
ASSUME CSVWrite("%1$s", <<ToJson([law |-> "stats", n |-> Len(Obs), k |-> 0])>>, RejFile)
=============================================================================
