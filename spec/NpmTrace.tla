------------------------------ MODULE NpmTrace ------------------------------
(* Trace validation for C06: each record is one real resolution (universe, root, graph as  *)
(* returned, install tree from the verif hook); judged by NpmModel!NpmViolations.           *)
EXTENDS NpmModel, Json, IOUtils, CSV
Obs == TLCEval(ndJsonDeserialize(IOEnv.VERIF_OBS))
RejFile == IOEnv.VERIF_REJ
TablesFile == IOEnv.VERIF_TABLES
VARIABLE row
Init == row = 0
Next == row = 0 /\ row' \in 1..Len(Obs)
Emit == row = 0 \/ (Obs[row].ok =>
          \A x \in NpmViolations(Obs[row].universe, Obs[row].graph, Obs[row].tree) :
             CSVWrite("%1$s", <<ToJson([law |-> x[1], n |-> row, k |-> x[2]])>>, RejFile))
ASSUME CSVWrite("%1$s", <<ToJson([law |-> "stats", n |-> Len(Obs), k |-> 0])>>, RejFile)
=============================================================================
