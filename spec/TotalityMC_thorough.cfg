CONSTANTS MaxLen = 4 MaxLenK = 3 MaxLines = 4 MaxDepth = 3
INIT MInit
NEXT MNext
INVARIANTS MonitorOK Emit
