CONSTANTS MaxLen = 4
INIT MInit
NEXT MNext
INVARIANTS MonitorOK Emit
