----------------------------- MODULE Pep508Trace -----------------------------
(* Trace validation for C16: requirement records (what ParseDependency / CanonPackageName   *)
(* returned, canonicalised by the harness: extras split and trimmed, specifier clauses        *)
(* without blanks, marker with single blanks) and marker records (was the guarded dependency   *)
(* followed by the real resolver?) are judged against the AST they were printed from.          *)
EXTENDS Pep508, Json, IOUtils, CSV
Obs == TLCEval(ndJsonDeserialize(IOEnv.VERIF_OBS))
RejFile == IOEnv.VERIF_REJ
SetOf(s) == {s[i] : i \in 1..Len(s)}
RowRej(o) ==
  IF o.kind = "req" THEN
     (IF ~o.ok THEN {"valid-requirement-rejected"} ELSE
        (IF o.name # o.expect.name THEN {"name-differs"} ELSE {})
        \cup (IF o.name2 # o.name THEN {"name-normalisation-not-idempotent"} ELSE {})
        \cup (IF SetOf(o.extras) # SetOf(o.expect.extras) THEN {"extras-differ"} ELSE {})
        \cup (IF SetOf(o.spec) # SetOf(o.expect.spec) THEN {"specifier-differs"} ELSE {})
        \cup (IF o.marker # o.expect.marker THEN {"marker-text-differs"} ELSE {}))
  ELSE (IF ~o.ok THEN {"marker-resolution-failed"} ELSE
        IF o.followed # MkEval(o.ast, SetOf(o.extras)) THEN {"marker-truth-differs-from-packaging"} ELSE {})
VARIABLE row
Init == row = 0
Next == row = 0 /\ row' \in 1..Len(Obs)
Emit == row = 0 \/ \A law \in RowRej(Obs[row]) : CSVWrite("%1$s", <<ToJson([law |-> law, n |-> row])>>, RejFile)
ASSUME CSVWrite("%1$s", <<ToJson([law |-> "stats", n |-> Len(Obs)])>>, RejFile)
=============================================================================
