----------------------------- MODULE MavenTables -----------------------------
EXTENDS MavenModel, Json, IOUtils
ASSUME JsonSerialize(IOEnv.VERIF_OUT, [versions |-> [i \in 1..Len(MVP) |-> MVP[i].text], reqs |-> [r \in 1..Len(MVRq) |-> MVR[r].text],
                                       soft |-> {r \in 1..Len(MVRq) : IsSoft(r)}, sat |-> [r \in 1..Len(MVRq) |-> {i \in 1..Len(MVP) : MSat[r][i]}]])
VARIABLE x
Init == x = 0
Next == FALSE /\ x' = x
=============================================================================
