----------------------------- MODULE NpmResolve -----------------------------
(* The npm resolver of util/resolve/npm as a state machine, for universes without bundled (derived)  *)
(* packages; aliases (npm:pkg@range installed under another directory name) are modelled:           *)
(*   Pop      - take the node on top of the stack (depth-first in declaration order), skip it if     *)
(*              processed, otherwise read its regular imports                                         *)
(*   Declare  - process ONE import of the current node: walk up the install tree for a directory      *)
(*              that already holds the package; reuse it when its version satisfies (or the range is  *)
(*              "*") and protect the slots in between; otherwise report an error, or install the       *)
(*              version npm would pick as high as the tree allows (stop below a directory that holds   *)
(*              the name or protects it), protecting the slots passed on the way up                    *)
(*   EndNode  - push the nodes inserted by this node, first one on top                                 *)
(*   Finish   - stack empty                                                                            *)
(* Universe, pools and the pick rule are those of NpmModel.tla, so the result can be judged by         *)
(* NpmModel!NpmViolations and compared with what the real resolver returns.                            *)
EXTENDS NpmModel, TLC
VARIABLES U, tree, stack, gnodes, gedges, cur, imps, di, ins, phase
nrvars == <<U, tree, stack, gnodes, gedges, cur, imps, di, ins, phase>>
\* tree : Seq([name, v, parent, processed, prot : SUBSET entry names, gid, slot, aliased]) ; index 1 = root ; a directory's
\* entries are the tree nodes whose parent it is; an entry sits under its slot = the alias when installed under one, the
\* package name otherwise (children and alias maps of the code share one namespace of directory names)
Kid(t, x, entry) == IF \E k \in 1..Len(t) : t[k].parent = x /\ t[k].slot = entry THEN CHOOSE k \in 1..Len(t) : t[k].parent = x /\ t[k].slot = entry ELSE 0
Entry(d) == IF d.alias # "" THEN d.alias ELSE d.name
\* regularImports: dev and peer are not resolved; a regular declaration is dropped when the package is also optional; a
\* bundleDependencies entry counts only when the package is not also a regular dependency
RegularImports(deps) ==
  LET optNames == {deps[i].name : i \in {i \in 1..Len(deps) : deps[i].kind = "opt"}}
      regNames == {deps[i].name : i \in {i \in 1..Len(deps) : deps[i].kind = "reg"}}
  IN SelectSeq(deps, LAMBDA d : d.kind # "dev" /\ d.kind # "peer" /\ ~(d.kind # "opt" /\ d.name \in optNames) /\ ~(d.kind = "bundle" /\ d.name \in regNames))
\* first directory, from x upwards, that holds the name: [dir, kid] or [dir |-> 0]
RECURSIVE FindUp(_, _, _)
FindUp(t, x, name) == IF x = 0 THEN [dir |-> 0, kid |-> 0] ELSE IF Kid(t, x, name) # 0 THEN [dir |-> x, kid |-> Kid(t, x, name)] ELSE FindUp(t, t[x].parent, name)
\* protect the name in every directory from x upwards that does not hold it (stops at the first that does)
RECURSIVE ProtectUp(_, _, _)
ProtectUp(t, x, name) == IF x = 0 \/ Kid(t, x, name) # 0 THEN t ELSE ProtectUp([t EXCEPT ![x].prot = @ \cup {name}], t[x].parent, name)
\* hoisting: from directory x climb while the parent neither holds nor protects the name, protecting the slots left behind
RECURSIVE Hoist(_, _, _)
Hoist(t, x, name) == IF t[x].parent = 0 \/ Kid(t, t[x].parent, name) # 0 \/ name \in t[t[x].parent].prot THEN [t |-> t, at |-> x]
                     ELSE Hoist([t EXCEPT ![x].prot = @ \cup {name}], t[x].parent, name)
MkE(f, t, d, sel) == [f |-> f, t |-> t, r |-> d.r, kind |-> d.kind, sel |-> sel, alias |-> d.alias]
AddErr(gn, n, d) == [gn EXCEPT ![n].errs = Append(@, [name |-> d.name, r |-> d.r])]

Pop == /\ phase = "pop" /\ stack # <<>>
       /\ LET x == stack[Len(stack)] IN
          /\ stack' = SubSeq(stack, 1, Len(stack) - 1)
          /\ IF tree[x].processed THEN UNCHANGED <<tree, cur, imps, di, ins, phase>>
             ELSE /\ tree' = [tree EXCEPT ![x].processed = TRUE] /\ cur' = x
                  /\ imps' = RegularImports(VerRec(U, tree[x].name, tree[x].v).deps) /\ di' = 1 /\ ins' = <<>> /\ phase' = "declare"
       /\ UNCHANGED <<U, gnodes, gedges>>
Declare ==
  /\ phase = "declare" /\ di <= Len(imps)
  /\ LET d == imps[di]
         en == Entry(d)
         sat == {e \in VersOfPkg(U, d.name) : SatRec(d.r, e)}
         up == FindUp(tree, cur, en)
         \* found through the package's own name and not installed under an alias: same package, the version must be one of
         \* the matching versions (or the range is "*"); otherwise only the directory name is known and the range is matched
         \* against the version string found there, whatever package it belongs to
         unaliased == up.dir # 0 /\ d.alias = "" /\ ~tree[up.kid].aliased
         reuse == up.dir # 0 /\ (IF unaliased THEN (\E e \in sat : e.v = tree[up.kid].v) \/ d.r = StarReq
                                  ELSE NR[d.r].range /\ NSat[d.r][tree[up.kid].v])
         gcur == tree[cur].gid
     IN IF up.dir # 0 /\ ~unaliased /\ ~NR[d.r].range THEN           \* a dist-tag cannot be matched against a directory: the code gives up
             phase' = "fatal" /\ UNCHANGED <<U, tree, stack, gnodes, gedges, cur, imps, di, ins>>
        ELSE IF reuse THEN
             /\ ins' = (IF tree[up.kid].processed THEN ins ELSE Append(ins, up.kid))
             /\ tree' = ProtectUp(tree, cur, en)
             /\ gedges' = Append(gedges, MkE(gcur, tree[up.kid].gid, d, FALSE))
             /\ di' = di + 1 /\ UNCHANGED <<U, stack, gnodes, cur, imps, phase>>
        ELSE IF sat = {} THEN
             /\ gnodes' = AddErr(gnodes, gcur, d) /\ di' = di + 1 /\ UNCHANGED <<U, tree, stack, gedges, cur, imps, ins, phase>>
        ELSE IF Kid(tree, cur, en) # 0 THEN                            \* this directory already holds another entry of that name
             /\ gnodes' = AddErr(gnodes, gcur, d) /\ di' = di + 1 /\ UNCHANGED <<U, tree, stack, gedges, cur, imps, ins, phase>>
        ELSE LET h == Hoist(tree, cur, en) IN
             IF tree[h.at].parent # 0 /\ tree[h.at].name = d.name THEN   \* would sit inside a directory of the same package: unreachable
                  /\ gnodes' = AddErr(gnodes, gcur, d) /\ tree' = h.t /\ di' = di + 1 /\ UNCHANGED <<U, stack, gedges, cur, imps, ins, phase>>
             ELSE LET pick == ExpectedPick(U, d.name, d.r)
                      gid == Len(gnodes) + 1
                      idx == Len(tree) + 1
                  IN /\ tree' = Append(h.t, [name |-> d.name, v |-> pick, parent |-> h.at, processed |-> FALSE, prot |-> {}, gid |-> gid, slot |-> en, aliased |-> (d.alias # "")])
                     /\ gnodes' = Append(gnodes, [name |-> d.name, v |-> pick, errs |-> <<>>])
                     /\ gedges' = Append(gedges, MkE(gcur, gid, d, TRUE))
                     /\ ins' = Append(ins, idx) /\ di' = di + 1 /\ UNCHANGED <<U, stack, cur, imps, phase>>
EndNode == /\ phase = "declare" /\ di > Len(imps)
           /\ stack' = stack \o [k \in 1..Len(ins) |-> ins[Len(ins) + 1 - k]]      \* reversed: the first inserted is popped first
           /\ phase' = "pop" /\ UNCHANGED <<U, tree, gnodes, gedges, cur, imps, di, ins>>
Finish == /\ phase = "pop" /\ stack = <<>> /\ phase' = "done" /\ UNCHANGED <<U, tree, stack, gnodes, gedges, cur, imps, di, ins>>
NRNext == Pop \/ Declare \/ EndNode \/ Finish
NRInit(u, root) == /\ U = u /\ tree = <<[name |-> root.name, v |-> root.v, parent |-> 0, processed |-> FALSE, prot |-> {}, gid |-> 1, slot |-> root.name, aliased |-> FALSE]>>
                   /\ stack = <<1>> /\ gnodes = <<[name |-> root.name, v |-> root.v, errs |-> <<>>]>> /\ gedges = <<>>
                   /\ cur = 0 /\ imps = <<>> /\ di = 0 /\ ins = <<>> /\ phase = "pop"

(* ---- what the design guarantees ---- *)
NGraph == [nodes |-> gnodes, edges |-> gedges]
\* the install tree in the form NpmModel judges: kids by name
KidSeq(x, al) == LET ks == {k \in 1..Len(tree) : tree[k].parent = x /\ tree[k].aliased = al} sq == SetToSeq(ks) IN [i \in 1..Len(sq) |-> [name |-> tree[sq[i]].slot, idx |-> sq[i]]]
NTree == [x \in 1..Len(tree) |-> [gid |-> tree[x].gid, name |-> tree[x].name, v |-> tree[x].v, parent |-> tree[x].parent, kids |-> KidSeq(x, FALSE), akids |-> KidSeq(x, TRUE)]]
\* one entry per name in every directory, at every step
OneNamePerDirectory == \A x, y \in 1..Len(tree) : (x # y /\ tree[x].parent = tree[y].parent /\ tree[x].parent # 0) => tree[x].slot # tree[y].slot
\* every graph the algorithm returns is a valid, loadable installation (all clauses of C06)
DoneValid == phase = "done" => NpmViolations(U, NGraph, NTree) = {}
\* stated separately for the alias-free part of a family (see NpmResolveMC): with aliases npm's own directory-name matching
\* can bind a requirement to a directory that holds another package
=============================================================================
