CONSTANTS
  N = 4
  MaxEdges = 3
  WithErr = TRUE
  Variants = {0, 1}
INIT Init
NEXT Next
INVARIANTS OrbitIsIso Emit
