------------------------------ MODULE ApiClient ------------------------------
(* C18: the API-backed client maps bundles and aliases consistently.                      *)
(* A requirements response of the service for an npm version (root):                        *)
(*   [deps : Deps, bundled : Seq([path : Seq(String), name, version, deps : Deps])]          *)
(*   Deps == [reg, dev, opt, peer : Seq([name, alias, req]), bundle : Seq(String)]           *)
(* (alias = "" for a plain dependency; otherwise the dependency is written                   *)
(*  name: "npm:<alias-target>@<req>" on the wire and `name` is the alias).                   *)
(* ToModel gives what the client must expose: the root's requirements and, per bundled       *)
(* package, ONE package named root>version>path with a single concrete version that records  *)
(* what it derives from and is required by its bundling parent with exactly that version.    *)
EXTENDS Integers, Sequences, FiniteSets, TLC
RECURSIVE JoinG(_, _)
JoinG(s, sep) == IF s = <<>> THEN "" ELSE IF Len(s) = 1 THEN s[1] ELSE s[1] \o sep \o JoinG(Tail(s), sep)
Mangled(root, pkgs) == root.name \o ">" \o root.version \o ">" \o JoinG(pkgs, ">")
WireReq(d) == IF d.alias = "" THEN d.req ELSE "npm:" \o d.alias \o "@" \o d.req
\* a dependency as the client must present it: requirement on the REAL name carrying the alias
Flat(d, kind) == [name |-> IF d.alias = "" THEN d.name ELSE d.alias, req |-> d.req, kind |-> kind, knownas |-> IF d.alias = "" THEN "" ELSE d.name]
FlatDeps(D) == {Flat(D.reg[i], "reg") : i \in 1..Len(D.reg)} \cup {Flat(D.dev[i], "dev") : i \in 1..Len(D.dev)}
               \cup {Flat(D.opt[i], "opt") : i \in 1..Len(D.opt)} \cup {Flat(D.peer[i], "peer") : i \in 1..Len(D.peer)}
               \cup {[name |-> D.bundle[i], req |-> "*", kind |-> "bundle", knownas |-> ""] : i \in 1..Len(D.bundle)}
BundleReq(root, b) == [name |-> Mangled(root, b.path), req |-> b.version, kind |-> "reg", knownas |-> ""]
ChildrenOf(root, resp, path) == {resp.bundled[i] : i \in {i \in 1..Len(resp.bundled) : Len(resp.bundled[i].path) = Len(path) + 1
                                                      /\ SubSeq(resp.bundled[i].path, 1, Len(path)) = path}}
RootReqs(root, resp) == FlatDeps(resp.deps) \cup {BundleReq(root, b) : b \in ChildrenOf(root, resp, <<>>)}
BundledModel(root, resp) ==
  {[name |-> Mangled(root, b.path), version |-> b.version, derivedfrom |-> b.name,
    reqs |-> FlatDeps(b.deps) \cup {BundleReq(root, c) : c \in ChildrenOf(root, resp, b.path)}]
   : b \in {resp.bundled[i] : i \in 1..Len(resp.bundled)}}

(* ---- design-level model of the shared map: calls from several goroutines at lock granularity ---- *)
\* pc[g] : "idle" -> "fetched" (response in hand, computing locally) -> "locked" (holding the mutex, storing) -> "idle"
\* readers take the mutex for a single lookup.
CONSTANTS Goroutines, Names
VARIABLES pc, holder, store, seen
TypeOK == pc \in [Goroutines -> {"idle", "fetched", "locked"}] /\ holder \in Goroutines \cup {0}
Init == pc = [g \in Goroutines |-> "idle"] /\ holder = 0 /\ store = {} /\ seen = [g \in Goroutines |-> {}]
Fetch(g) == pc[g] = "idle" /\ pc' = [pc EXCEPT ![g] = "fetched"] /\ UNCHANGED <<holder, store, seen>>
Lock(g) == pc[g] = "fetched" /\ holder = 0 /\ holder' = g /\ pc' = [pc EXCEPT ![g] = "locked"] /\ UNCHANGED <<store, seen>>
StoreAll(g) == pc[g] = "locked" /\ holder = g /\ store' = store \cup Names /\ holder' = 0 /\ pc' = [pc EXCEPT ![g] = "idle"] /\ UNCHANGED seen
Read(g) == pc[g] = "idle" /\ holder = 0 /\ seen' = [seen EXCEPT ![g] = @ \cup store] /\ UNCHANGED <<pc, holder, store>>
Next == \E g \in Goroutines : Fetch(g) \/ Lock(g) \/ StoreAll(g) \/ Read(g)
MutualExclusion == Cardinality({g \in Goroutines : pc[g] = "locked"}) <= 1
\* a reader sees either nothing or everything of a response (all-or-nothing visibility) and never loses what it saw
AllOrNothing == \A g \in Goroutines : seen[g] = {} \/ seen[g] = Names
Monotone == [][\A g \in Goroutines : seen[g] \subseteq seen'[g]]_<<pc, holder, store, seen>>
=============================================================================
