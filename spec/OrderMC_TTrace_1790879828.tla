---- MODULE OrderMC_TTrace_1790879828 ----
EXTENDS OrderMC, Sequences, TLCExt, Toolbox, Naturals, TLC

_expression ==
    LET OrderMC_TEExpression == INSTANCE OrderMC_TEExpression
    IN OrderMC_TEExpression!expression
----

_trace ==
    LET OrderMC_TETrace == INSTANCE OrderMC_TETrace
    IN OrderMC_TETrace!trace
----

_inv ==
    ~(
        TLCGet("level") = Len(_TETrace)
        /\
        rowv = (<<9, 9, 9, 9, 9, 9, 9, 9, 9, 9, 9, 9, 9, 9, 9, 9, 9, 9, 9, 9, 9, 9, 9, 9, 9, 9, 9, 9, 9, 9, 9, 9, 9, 9, 9, 9, 9, 9, 9, 9, 9, 9, 9, 9, 9, 9, 9, 9, 9, 9, 9, 9, 9, 9, 9, 9, 9, 9, 9, 9, 9, 9, 9, 9, 9, 9, 9, 9, 9, 9, 9, 9, 9, 9, 9, 9, 9, 9, 9, 9, 9, 9, 9, 9, 9, 9, 9, 9, 9, 9, 9, 9, 9, 9, 9, 9, 9, 9, 9, 9, 9, 9, 9, 9, 9, 9, 9, 9, 9, 9, 9, 9, 9, 9, 9, 9, 9, 9, 9, 9, 9, 9, 9, 9, 9, 9, 9, 9, 9, 9, 9, 9, 9, 9, 1, 0, 0, 0, 0, 0, 0, 0, 0, 0, -1, 1, -1, -1, -1, 1, 1, 1, 1, 1, 1, 1, 1, 1, 1, 1, 1, 1, 1, 1, 1, 1, 1, 1, 1, 1, 1, 1, 1, 1, -1, -1, -1, -1, -1, -1, -1, -1, -1, -1, -1, -1, -1, -1, -1, -1, -1, -1, 1, 1, 1, 1, 1, 1, 1, 1, 1, 1, 1, 1, 1, 1, 1, 1, 1, 1, 1, 1, 1, 1, 1, 1, 1, 1, 1, 1, 1, 1, 1, 1, 1, 1, 1, 1, 1, 1, 1, 1, 1, 1, 1, 1, 1, 1, 1, 1, 1, 1, 1, 1, 1, 1, 1, 1, 1, 1, 1, 1, 1, 1, 1, 1, 1, 1, 1, 1, 1, 1, -1, -1, -1, -1, -1, -1, -1, -1, -1, -1, -1, -1, -1, -1, -1, -1, -1, -1, -1, -1, -1, -1, -1, -1, -1, -1, -1, -1, -1, -1, -1, -1, -1, -1, -1, -1, -1, -1, -1, -1, -1, -1, -1, -1, -1, -1, -1, -1, -1, -1, -1, -1, -1, -1, -1, -1, -1, -1, -1, -1, -1, -1, -1, -1, -1, -1, -1, -1, -1, -1, -1, -1, -1, -1, -1, -1, -1, -1, -1, -1, -1, -1, -1, -1, -1, -1, -1, -1, -1, -1, -1, -1, -1, -1, -1, -1, -1, -1, -1, -1, -1, -1, -1, -1, -1, -1, -1, -1, -1, -1, -1, -1, -1, -1, -1, -1, -1, -1, -1, -1, -1, -1, -1, -1>>)
        /\
        row = (136)
    )
----

_init ==
    /\ row = _TETrace[1].row
    /\ rowv = _TETrace[1].rowv
----

_next ==
    /\ \E i,j \in DOMAIN _TETrace:
        /\ \/ /\ j = i + 1
              /\ i = TLCGet("level")
        /\ row  = _TETrace[i].row
        /\ row' = _TETrace[j].row
        /\ rowv  = _TETrace[i].rowv
        /\ rowv' = _TETrace[j].rowv

\* Uncomment the ASSUME below to write the states of the error trace
\* to the given file in Json format. Note that you can pass any tuple
\* to `JsonSerialize`. For example, a sub-sequence of _TETrace.
    \* ASSUME
    \*     LET J == INSTANCE Json
    \*         IN J!JsonSerialize("OrderMC_TTrace_1790879828.json", _TETrace)

=============================================================================

 Note that you can extract this module `OrderMC_TEExpression`
  to a dedicated file to reuse `expression` (the module in the 
  dedicated `OrderMC_TEExpression.tla` file takes precedence 
  over the module `OrderMC_TEExpression` below).

---- MODULE OrderMC_TEExpression ----
EXTENDS OrderMC, Sequences, TLCExt, Toolbox, Naturals, TLC

expression == 
    [
        \* To hide variables of the `OrderMC` spec from the error trace,
        \* remove the variables below.  The trace will be written in the order
        \* of the fields of this record.
        row |-> row
        ,rowv |-> rowv
        
        \* Put additional constant-, state-, and action-level expressions here:
        \* ,_stateNumber |-> _TEPosition
        \* ,_rowUnchanged |-> row = row'
        
        \* Format the `row` variable as Json value.
        \* ,_rowJson |->
        \*     LET J == INSTANCE Json
        \*     IN J!ToJson(row)
        
        \* Lastly, you may build expressions over arbitrary sets of states by
        \* leveraging the _TETrace operator.  For example, this is how to
        \* count the number of times a spec variable changed up to the current
        \* state in the trace.
        \* ,_rowModCount |->
        \*     LET F[s \in DOMAIN _TETrace] ==
        \*         IF s = 1 THEN 0
        \*         ELSE IF _TETrace[s].row # _TETrace[s-1].row
        \*             THEN 1 + F[s-1] ELSE F[s-1]
        \*     IN F[_TEPosition - 1]
    ]

=============================================================================



Parsing and semantic processing can take forever if the trace below is long.
 In this case, it is advised to uncomment the module below to deserialize the
 trace from a generated binary file.

\*
\*---- MODULE OrderMC_TETrace ----
\*EXTENDS OrderMC, IOUtils, TLC
\*
\*trace == IODeserialize("OrderMC_TTrace_1790879828.bin", TRUE)
\*
\*=============================================================================
\*

---- MODULE OrderMC_TETrace ----
EXTENDS OrderMC, TLC

trace == 
    <<
    ([rowv |-> <<>>,row |-> 0]),
    ([rowv |-> <<9, 9, 9, 9, 9, 9, 9, 9, 9, 9, 9, 9, 9, 9, 9, 9, 9, 9, 9, 9, 9, 9, 9, 9, 9, 9, 9, 9, 9, 9, 9, 9, 9, 9, 9, 9, 9, 9, 9, 9, 9, 9, 9, 9, 9, 9, 9, 9, 9, 9, 9, 9, 9, 9, 9, 9, 9, 9, 9, 9, 9, 9, 9, 9, 9, 9, 9, 9, 9, 9, 9, 9, 9, 9, 9, 9, 9, 9, 9, 9, 9, 9, 9, 9, 9, 9, 9, 9, 9, 9, 9, 9, 9, 9, 9, 9, 9, 9, 9, 9, 9, 9, 9, 9, 9, 9, 9, 9, 9, 9, 9, 9, 9, 9, 9, 9, 9, 9, 9, 9, 9, 9, 9, 9, 9, 9, 9, 9, 9, 9, 9, 9, 9, 9, 1, 0, 0, 0, 0, 0, 0, 0, 0, 0, -1, 1, -1, -1, -1, 1, 1, 1, 1, 1, 1, 1, 1, 1, 1, 1, 1, 1, 1, 1, 1, 1, 1, 1, 1, 1, 1, 1, 1, 1, -1, -1, -1, -1, -1, -1, -1, -1, -1, -1, -1, -1, -1, -1, -1, -1, -1, -1, 1, 1, 1, 1, 1, 1, 1, 1, 1, 1, 1, 1, 1, 1, 1, 1, 1, 1, 1, 1, 1, 1, 1, 1, 1, 1, 1, 1, 1, 1, 1, 1, 1, 1, 1, 1, 1, 1, 1, 1, 1, 1, 1, 1, 1, 1, 1, 1, 1, 1, 1, 1, 1, 1, 1, 1, 1, 1, 1, 1, 1, 1, 1, 1, 1, 1, 1, 1, 1, 1, -1, -1, -1, -1, -1, -1, -1, -1, -1, -1, -1, -1, -1, -1, -1, -1, -1, -1, -1, -1, -1, -1, -1, -1, -1, -1, -1, -1, -1, -1, -1, -1, -1, -1, -1, -1, -1, -1, -1, -1, -1, -1, -1, -1, -1, -1, -1, -1, -1, -1, -1, -1, -1, -1, -1, -1, -1, -1, -1, -1, -1, -1, -1, -1, -1, -1, -1, -1, -1, -1, -1, -1, -1, -1, -1, -1, -1, -1, -1, -1, -1, -1, -1, -1, -1, -1, -1, -1, -1, -1, -1, -1, -1, -1, -1, -1, -1, -1, -1, -1, -1, -1, -1, -1, -1, -1, -1, -1, -1, -1, -1, -1, -1, -1, -1, -1, -1, -1, -1, -1, -1, -1, -1, -1>>,row |-> 136])
    >>
----


=============================================================================

---- CONFIG OrderMC_TTrace_1790879828 ----
CONSTANTS
    Tier = "quick"
    SysName = "Maven"

INVARIANT
    _inv

CHECK_DEADLOCK
    \* CHECK_DEADLOCK off because of PROPERTY or INVARIANT above.
    FALSE

INIT
    _init

NEXT
    _next

CONSTANT
    _TETrace <- _trace

ALIAS
    _expression
=============================================================================
\* Generated on Thu Oct 01 18:37:14 UTC 2026