INIT Init
NEXT Next
