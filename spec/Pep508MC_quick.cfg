CONSTANTS AllWs = FALSE
INIT Init
NEXT Next
INVARIANT Emit
