CONSTANTS
  Tier = "thorough"
  SysName = "Default"
  DomSource = "enum"
INIT Init
NEXT Next
INVARIANTS Refl Emit
