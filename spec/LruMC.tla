-------------------------------- MODULE LruMC --------------------------------
(* Enumerates every Add/Get history up to MaxOps for every cache size in Sizes, checks the   *)
(* design-level properties of Lru on each reachable state and emits the maximal histories    *)
(* for replay on the real cache.                                                              *)
EXTENDS Lru, Json, IOUtils, CSV
OutFile == IOEnv.VERIF_OUT
Emit == Len(hist) = MaxOps => CSVWrite("%1$s", <<ToJson([max |-> size, ops |-> hist])>>, OutFile)
=============================================================================
