------------------------------ MODULE PipTables ------------------------------
EXTENDS PipModel, Json, IOUtils
ASSUME JsonSerialize(IOEnv.VERIF_OUT, [versions |-> [i \in 1..Len(PV) |-> PV[i].text], reqs |-> [r \in 1..Len(PRq) |-> PRText(r)],
         markers |-> [m \in 1..Len(PM) |-> MText(PM[m])], pre |-> {i \in 1..Len(PV) : IsPre(i)},
         sat |-> [r \in 1..Len(PRq) |-> {i \in 1..Len(PV) : RawSat[r][i]}],
         mtrue |-> [m \in 1..Len(PM) |-> [none |-> MEval(PM[m], {}), test |-> MEval(PM[m], {"test"}), dev |-> MEval(PM[m], {"dev"})]]])
VARIABLE x
Init == x = 0
Next == FALSE /\ x' = x
=============================================================================
