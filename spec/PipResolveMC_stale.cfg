CONSTANTS MaxRounds = 60 Family = "full"
INIT Init
NEXT Next
INVARIANTS DoneNoStale
