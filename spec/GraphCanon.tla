----------------------------- MODULE GraphCanon -----------------------------
(* C13: graph canonicalisation picks one representative per isomorphism class.           *)
(* Graphs: [nodes : Seq([ver, errs : Seq(String)]), edges : Seq([f, t, req, typ])],       *)
(* node 1 is the root.  The orbit of a graph: renumberings of the non-root nodes, shuffles *)
(* of the edge list and of the per-node error lists.                                       *)
EXTENDS Integers, Sequences, FiniteSets, TLC

RangeOf(s) == {s[i] : i \in 1..Len(s)}
NodeCount(g) == Len(g.nodes)
EdgeSet(g) == RangeOf(g.edges)
ErrBag(n) == [e \in RangeOf(n.errs) |-> Cardinality({i \in 1..Len(n.errs) : n.errs[i] = e})]
SameNode(a, b) == a.ver = b.ver /\ ErrBag(a) = ErrBag(b)
\* edge bags under a node mapping
EdgeBag(g, m) == LET es == {[f |-> m[e.f], t |-> m[e.t], req |-> e.req, typ |-> e.typ] : e \in EdgeSet(g)} IN
  [x \in es |-> Cardinality({i \in 1..Len(g.edges) : [f |-> m[g.edges[i].f], t |-> m[g.edges[i].t], req |-> g.edges[i].req, typ |-> g.edges[i].typ] = x})]
Id(n) == [i \in 1..n |-> i]
\* g and h are the same graph up to renumbering of non-root nodes and order of edges / errors
Iso(g, h) ==
  /\ NodeCount(g) = NodeCount(h) /\ Len(g.edges) = Len(h.edges)
  /\ \E m \in {p \in [1..NodeCount(g) -> 1..NodeCount(g)] : p[1] = 1 /\ \A i, j \in 1..NodeCount(g) : i # j => p[i] # p[j]} :
        /\ \A i \in 1..NodeCount(g) : SameNode(g.nodes[i], h.nodes[m[i]])
        /\ EdgeBag(g, m) = EdgeBag(h, Id(NodeCount(h)))
\* necessary conditions that are cheap for big graphs: content bags
NodeBagOf(g) == LET ks == {<<g.nodes[i].ver, ErrBag(g.nodes[i])>> : i \in 1..NodeCount(g)} IN
  [k \in ks |-> Cardinality({i \in 1..NodeCount(g) : <<g.nodes[i].ver, ErrBag(g.nodes[i])>> = k})]
EC(g, e) == <<g.nodes[e.f].ver, ErrBag(g.nodes[e.f]), g.nodes[e.t].ver, ErrBag(g.nodes[e.t]), e.req, e.typ>>
EdgeContentBag(g) == LET ks == {EC(g, g.edges[i]) : i \in 1..Len(g.edges)} IN
  [k \in ks |-> Cardinality({i \in 1..Len(g.edges) : EC(g, g.edges[i]) = k})]
ContentPreserved(g, h) == /\ NodeCount(g) = NodeCount(h) /\ SameNode(g.nodes[1], h.nodes[1])
                          /\ NodeBagOf(g) = NodeBagOf(h) /\ EdgeContentBag(g) = EdgeContentBag(h)
\* the canonical output must not depend on list orders: errors sorted inside nodes is the code's business;
\* two outputs are "identical" when nodes and edges are equal as sequences
Identical(g, h) == g.nodes = h.nodes /\ g.edges = h.edges

\* judgement of one orbit: members : Seq([input, ok, out, ok2, out2])
OrbitRej(ms, small) ==
  LET oks == {ms[i].ok : i \in 1..Len(ms)} IN
  (IF Cardinality(oks) > 1 THEN {"fails-for-some-members-only"} ELSE {})
  \cup (IF \E i, j \in 1..Len(ms) : ms[i].ok /\ ms[j].ok /\ ~Identical(ms[i].out, ms[j].out) THEN {"different-canonical-forms"} ELSE {})
  \cup (IF \E i \in 1..Len(ms) : ms[i].ok /\ (~ms[i].ok2 \/ ~Identical(ms[i].out, ms[i].out2)) THEN {"not-idempotent"} ELSE {})
  \cup (IF \E i \in 1..Len(ms) : ms[i].ok /\ ~ContentPreserved(ms[i].input, ms[i].out) THEN {"content-not-preserved"} ELSE {})
  \cup (IF small /\ \E i \in 1..Len(ms) : ms[i].ok /\ ~Iso(ms[i].input, ms[i].out) THEN {"not-isomorphic-to-input"} ELSE {})
=============================================================================
