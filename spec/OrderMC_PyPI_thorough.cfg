CONSTANTS
  Tier = "thorough"
  SysName = "PyPI"
  DomSource = "enum"
INIT Init
NEXT Next
INVARIANTS Refl Emit
