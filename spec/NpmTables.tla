------------------------------ MODULE NpmTables ------------------------------
(* Writes the pools of NpmModel (version texts, requirement texts) for the universe generator. *)
EXTENDS NpmModel, Json, IOUtils
ASSUME JsonSerialize(IOEnv.VERIF_OUT, [versions |-> [i \in 1..Len(NV) |-> NV[i].text], reqs |-> [r \in 1..Len(NR) |-> NR[r].text],
                                       sat |-> [r \in 1..Len(NR) |-> {i \in 1..Len(NV) : NSat[r][i]}]])
VARIABLE x
Init == x = 0
Next == FALSE /\ x' = x
=============================================================================
