---------------------------- MODULE NpmStepTrace ----------------------------
(* Step-level trace validation of the real npm resolver against NpmResolve.tla.                    *)
(* Built with the verif tag the resolver reports every step of its main loop (hook npm.VerifStep):   *)
(* "pop" when a node is taken from the stack and processed, "declare" for every import with what     *)
(* was done about it (reuse of an installed copy, error, new installation, fatal), "done".  Each     *)
(* event is consumed by the NpmResolve action it corresponds to, with the logged fields bound to     *)
(* the model's state before and after; popping an already processed node and the end of a node's     *)
(* import list are silent.  A "start" event carrying the universe re-initialises the model.          *)
(* Single path, deadlock checking on: an event the model cannot take stops TLC at that line.         *)
EXTENDS NpmResolve, Json, IOUtils
Trace == TLCEval(ndJsonDeserialize(IOEnv.VERIF_TRACE))
VARIABLE l
tvars == <<nrvars, l>>
Ev == Trace[l]
IsEvent(e) == l <= Len(Trace) /\ Ev.ev = e /\ l' = l + 1
TRoot == [name |-> "root", v |-> 4]
TInit == l = 2 /\ Trace[1].ev = "start" /\ NRInit(Trace[1].universe, TRoot)
TStart == /\ IsEvent("start") /\ phase \in {"done", "fatal"}
          /\ U' = Ev.universe /\ tree' = <<[name |-> TRoot.name, v |-> TRoot.v, parent |-> 0, processed |-> FALSE, prot |-> {}, gid |-> 1, slot |-> TRoot.name, aliased |-> FALSE]>>
          /\ stack' = <<1>> /\ gnodes' = <<[name |-> TRoot.name, v |-> TRoot.v, errs |-> <<>>]>> /\ gedges' = <<>>
          /\ cur' = 0 /\ imps' = <<>> /\ di' = 0 /\ ins' = <<>> /\ phase' = "pop"
TopProcessed == stack # <<>> /\ tree[stack[Len(stack)]].processed
TPop == IsEvent("pop") /\ ~TopProcessed /\ Pop /\ tree[stack[Len(stack)]].name = Ev.name /\ tree[stack[Len(stack)]].v = Ev.v
TSilentPop == TopProcessed /\ Pop /\ UNCHANGED l
Outcome == CASE phase' = "fatal" -> "fatal"
             [] Len(gnodes') > Len(gnodes) -> "new"
             [] Len(gedges') > Len(gedges) -> "reuse"
             [] OTHER -> "error"
TDeclare == /\ IsEvent("declare") /\ Declare
            /\ imps[di].name = Ev.name /\ imps[di].r = Ev.r /\ imps[di].alias = Ev.alias /\ Outcome = Ev.outcome
            /\ (Ev.outcome \in {"new", "reuse"} => gnodes'[gedges'[Len(gedges')].t].v = Ev.v)
TSilentEnd == EndNode /\ UNCHANGED l
TDone == IsEvent("done") /\ Finish
TEnd == l > Len(Trace) /\ phase \in {"done", "fatal"} /\ UNCHANGED tvars
TNext == TStart \/ TPop \/ TSilentPop \/ TDeclare \/ TSilentEnd \/ TDone \/ TEnd
=============================================================================
