--------------------------------- MODULE Lru ---------------------------------
(* The least-recently-used cache shared by every Resolve call of one PyPI resolver object    *)
(* (util/resolve/pypi/internal/lru: markerCache, constraintCache, prereleaseMatchCache).     *)
(* C05 names these caches as the state through which one resolution can leak into the next:  *)
(* the resolver stays a pure function only if the cache is a faithful partial memo, i.e. a   *)
(* hit returns exactly what was last added under that key.  The production size is 10,000,   *)
(* so no resolver-level run ever reaches the eviction path; this module specifies the cache  *)
(* itself, one action per public method, and LruTrace binds it to the real type.              *)
(*                                                                                            *)
(* Abstract state: the sequence of entries, most recently used first (the code keeps a       *)
(* doubly linked list with head/tail plus a key -> node map; Add on a full cache reuses the   *)
(* tail node in place).                                                                       *)
EXTENDS Integers, Sequences, FiniteSets, TLC
CONSTANTS Keys, Vals, Sizes, MaxOps

Entry(k, v) == [k |-> k, v |-> v]
Idx(c, k) == IF \E i \in 1..Len(c) : c[i].k = k THEN CHOOSE i \in 1..Len(c) : c[i].k = k ELSE 0
Without(c, i) == SubSeq(c, 1, i - 1) \o SubSeq(c, i + 1, Len(c))
KeysOf(c) == {c[i].k : i \in 1..Len(c)}

\* Cache.Add: update + move to front / push while there is room / evict the tail
Add(c, m, k, v) ==
  LET i == Idx(c, k) IN
  IF i # 0 THEN <<Entry(k, v)>> \o Without(c, i)
  ELSE IF Len(c) < m THEN <<Entry(k, v)>> \o c
  ELSE <<Entry(k, v)>> \o SubSeq(c, 1, Len(c) - 1)
\* Cache.Get: a hit moves the entry to the front, a miss changes nothing
Get(c, k) == LET i == Idx(c, k) IN IF i # 0 THEN <<c[i]>> \o Without(c, i) ELSE c
Hit(c, k) == Idx(c, k) # 0
ValueOf(c, k) == c[Idx(c, k)].v

Ops == [op : {"add"}, k : Keys, v : Vals] \cup [op : {"get"}, k : Keys, v : {0}]
Apply(c, m, o) == IF o.op = "add" THEN Add(c, m, o.k, o.v) ELSE Get(c, o.k)

VARIABLES cache, size, hist
vars == <<cache, size, hist>>
Init == cache = <<>> /\ size \in Sizes /\ hist = <<>>
Next == Len(hist) < MaxOps /\ \E o \in Ops : cache' = Apply(cache, size, o) /\ hist' = Append(hist, o) /\ size' = size
Spec == Init /\ [][Next]_vars

-----------------------------------------------------------------------------
(* Design-level properties, checked by TLC on every reachable state of the bounded model.    *)
Bounded == Len(cache) <= size
DistinctKeys == Cardinality(KeysOf(cache)) = Len(cache)

\* history-based meaning, independent of the operational definition above -------------------
LastAdd(h, k) == IF \E i \in 1..Len(h) : h[i].op = "add" /\ h[i].k = k
                 THEN CHOOSE i \in 1..Len(h) : h[i].op = "add" /\ h[i].k = k /\ \A j \in i + 1..Len(h) : ~(h[j].op = "add" /\ h[j].k = k)
                 ELSE 0
\* a faithful memo: whatever is present carries the value of the latest Add of its key
Faithful == \A i \in 1..Len(cache) : LET a == LastAdd(hist, cache[i].k) IN a # 0 /\ hist[a].v = cache[i].v

\* the LRU characterisation.  Present[n] = keys present after n operations; an operation n    *)
\* "uses" its key if it is an Add, or a Get that hits.  A key is present exactly when it has  *)
\* been added and fewer than `size` distinct other keys were used since its own last use.     *)
RECURSIVE PresentAfter(_, _, _)
Uses(h, m, n) == h[n].op = "add" \/ h[n].k \in PresentAfter(h, m, n - 1)
LastUse(h, m, n, k) == IF \E i \in 1..n : h[i].k = k /\ Uses(h, m, i)
                       THEN CHOOSE i \in 1..n : h[i].k = k /\ Uses(h, m, i) /\ \A j \in i + 1..n : ~(h[j].k = k /\ Uses(h, m, j))
                       ELSE 0
PresentAfter(h, m, n) ==
  IF n = 0 THEN {}
  ELSE {k \in Keys : LET u == LastUse(h, m, n, k) IN
          /\ u # 0
          /\ Cardinality({h[j].k : j \in {j \in u + 1..n : h[j].k # k /\ Uses(h, m, j)}}) < m}
LruMeaning == KeysOf(cache) = PresentAfter(hist, size, Len(hist))
\* recency order: entries are ordered by their last use, most recent first
RecencyOrder == \A i, j \in 1..Len(cache) : i < j =>
                   LastUse(hist, size, Len(hist), cache[i].k) > LastUse(hist, size, Len(hist), cache[j].k)

\* action properties
GetNeverChangesContent == [][hist'[Len(hist')].op = "get" =>
                               {<<cache[i].k, cache[i].v>> : i \in 1..Len(cache)} = {<<cache'[i].k, cache'[i].v>> : i \in 1..Len(cache')}]_vars
AddEvictsAtMostOne == [][Cardinality(KeysOf(cache) \ KeysOf(cache')) <= 1]_vars
EvictsOnlyTheTail == [][\A k \in KeysOf(cache) \ KeysOf(cache') : cache[Len(cache)].k = k /\ Len(cache) = size]_vars
=============================================================================
