CONSTANTS
  Tier = "quick"
  SysName = "Cargo"
INIT Init
NEXT Next
INVARIANT Emit
