CONSTANTS
  Tier = "thorough"
  SysName = "Cargo"
INIT Init
NEXT Next
INVARIANT Emit
