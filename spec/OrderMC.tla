------------------------------ MODULE OrderMC ------------------------------
(* Model run for C01 / C02 / C10 (spec side): evaluates the REFERENCE comparator on a     *)
(* whole domain and writes the reference matrix, one row per TLC state so that all       *)
(* workers share the N^2 evaluations.  The domain is either enumerated from               *)
(* VersionDomain (DomSource = "enum": the bounded domain D(SysName), which is then also   *)
(* written out for the harness) or read from a file produced by the seeded generator      *)
(* (DomSource = "file": same record shape, bigger numerals / longer identifiers).         *)
(* The laws of the reference relation itself (total preorder on the lawful part) are      *)
(* checked on the emitted matrix by OrderTrace!RefLaws.                                   *)
EXTENDS VersionDomain, Json, IOUtils, SequencesExt, CSV

CONSTANT SysName, DomSource
DomFile == IOEnv.VERIF_DOM      \* written when "enum", read when "file"
RefFile == IOEnv.VERIF_REF

Dom0 == IF DomSource = "enum" THEN D(SysName) ELSE {}
Texts == {d.text : d \in Dom0}
\* one record per text; two ASTs printing to the same text must agree on the key
ASSUME \A d \in Dom0 : \A e \in Dom0 : d.text = e.text => d = e \/ (d.key = e.key /\ d.ref = e.ref)
DS == TLCEval(IF DomSource = "enum" THEN SetToSeq({CHOOSE d \in Dom0 : d.text = t : t \in Texts})
              ELSE ndJsonDeserialize(DomFile))
N == Len(DS)
KeyIdx == TLCEval({i \in 1..N : DS[i].kind # "none"})
Kind == IF KeyIdx = {} THEN "none" ELSE DS[CHOOSE i \in KeyIdx : TRUE].kind

VARIABLES row, rowv
vars == <<row, rowv>>

RowOf(i) == [j \in 1..N |-> IF j \in KeyIdx THEN RefCmp(Kind, DS[i].key, DS[j].key) ELSE 9]

Init == row = 0 /\ rowv = <<>>
         /\ (DomSource = "enum" => ndJsonSerialize(DomFile, DS))
Next == row = 0 /\ row' \in KeyIdx /\ rowv' = RowOf(row')

Refl == row # 0 => rowv[row] = 0
Emit == row # 0 => CSVWrite("%1$s", <<ToJson([i |-> row, r |-> rowv])>>, RefFile)
=============================================================================
