------------------------------ MODULE Totality ------------------------------
(* C04: parsing and matching entry points are total.                                      *)
(* The call monitor: idle -> called -> returned(value | error).  There is deliberately no    *)
(* action for "panicked", "timed out" or "process died": a logged call with such an outcome   *)
(* is not a behaviour of this specification.                                                   *)
(* Inputs: TLC enumerates every string over the class alphabet (one or more representative     *)
(* characters per class the lexers distinguish, plus NUL, DEL, a 2-byte rune, an invalid UTF-8  *)
(* byte and the infinity sign) up to MaxLen; the harness adds seeded "one mistake away from     *)
(* valid" mutations of valid inputs and long / deeply nested ones.                              *)
EXTENDS Integers, Sequences, FiniteSets, TLC
CONSTANT MaxLen
\* index into the alphabet table kept by the harness (bytes cannot be written portably in TLA+ strings)
AlphabetSize == 34
Words == UNION {[1..n -> 1..AlphabetSize] : n \in 0..MaxLen}
Outcomes == {"value", "error"}
\* monitor
VARIABLES state, word
MInit == state = "idle" /\ word = <<>>
Call == state = "idle" /\ state' = "called" /\ word' \in Words
Return == state = "called" /\ state' \in {"returned-value", "returned-error"} /\ UNCHANGED word
MNext == Call \/ Return
MonitorOK == state \in {"idle", "called", "returned-value", "returned-error"}
\* judgement of a logged call
CallRej(ev) == IF ev.outcome \in Outcomes THEN {} ELSE {ev.outcome}
=============================================================================
