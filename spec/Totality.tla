------------------------------ MODULE Totality ------------------------------
(* C04: parsing and matching entry points are total.                                      *)
(* The call monitor: idle -> called -> returned(value | error).  There is deliberately no    *)
(* action for "panicked", "timed out" or "process died": a logged call with such an outcome   *)
(* is not a behaviour of this specification.                                                   *)
(* Inputs: TLC enumerates every string over the class alphabet (one or more representative     *)
(* characters per class the lexers distinguish, plus NUL, DEL, a 2-byte rune, an invalid UTF-8  *)
(* byte and the infinity sign) up to MaxLen; the harness adds seeded "one mistake away from     *)
(* valid" mutations of valid inputs and long / deeply nested ones.                              *)
EXTENDS Integers, Sequences, FiniteSets, TLC
CONSTANTS MaxLen, MaxLenK, MaxLines, MaxDepth
\* index into the alphabet table kept by the harness (bytes cannot be written portably in TLA+ strings)
AlphabetSize == 34
\* ... followed in the same table by the keyword tokens of the grammars behind the entry points (placeholders such as
\* ${env.HOME} or ${project.version}, PEP 440 / Maven qualifiers, marker variables and operators, range operators, line
\* prefixes of the text formats, newline and tab): short words over the extended alphabet that use at least one keyword
KAlphabetSize == 84
KWords == UNION {{w \in [1..n -> 1..KAlphabetSize] : \E i \in 1..n : w[i] > AlphabetSize} : n \in 1..MaxLenK}
Words == UNION {[1..n -> 1..AlphabetSize] : n \in 0..MaxLen} \cup KWords
\* Grammar-derived inputs for the two line-oriented text formats (schema universes and resolved graphs): a text is a
\* sequence of lines, each an indentation depth and one of LineKinds line templates (node definition, labelled
\* definition, label reference, undefined / duplicate label, node error, graph error, dependency-typed line, comment,
\* bare name, attribute line ...; the harness holds one template table per format).
LineKinds == 10
Texts == UNION {[1..n -> (1..LineKinds) \X (0..MaxDepth)] : n \in 1..MaxLines}
Inputs == [kind : {"word"}, w : Words] \cup [kind : {"text"}, w : Texts]
Outcomes == {"value", "error"}
\* monitor
VARIABLES state, word
MInit == state = "idle" /\ word = [kind |-> "word", w |-> <<>>]
\* (Inputs spelled out per length so that TLC enumerates the function sets lazily instead of building one set of millions)
Call == /\ state = "idle" /\ state' = "called"
        /\ \/ \E n \in 0..MaxLen : word' \in [kind : {"word"}, w : [1..n -> 1..AlphabetSize]]
           \/ \E n \in 1..MaxLenK : word' \in [kind : {"word"}, w : {w \in [1..n -> 1..KAlphabetSize] : \E i \in 1..n : w[i] > AlphabetSize}]
           \/ \E n \in 1..MaxLines : word' \in [kind : {"text"}, w : [1..n -> (1..LineKinds) \X (0..MaxDepth)]]
Return == state = "called" /\ state' \in {"returned-value", "returned-error"} /\ UNCHANGED word
MNext == Call \/ Return
MonitorOK == state \in {"idle", "called", "returned-value", "returned-error"}
\* judgement of a logged call
CallRej(ev) == IF ev.outcome \in Outcomes THEN {} ELSE {ev.outcome}
=============================================================================
