CONSTANTS
  Tier = "thorough"
  SysName = "NuGet"
INIT Init
NEXT Next
INVARIANT Emit
