CONSTANTS
  Tier = "quick"
  SysName = "Maven"
INIT Init
NEXT Next
INVARIANT Emit
