CONSTANTS
  Goroutines = {1, 2, 3}
  Names = {"n1", "n2"}
INIT MInit
NEXT MNext
INVARIANTS TypeOK MutualExclusion AllOrNothing UniqueNames Emit
