INIT TInit
NEXT TNext
INVARIANTS OneNamePerDirectory DoneValid
