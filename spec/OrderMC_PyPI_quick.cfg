CONSTANTS
  Tier = "quick"
  SysName = "PyPI"
  DomSource = "enum"
INIT Init
NEXT Next
INVARIANTS Refl Emit
