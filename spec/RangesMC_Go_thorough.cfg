CONSTANTS
  Tier = "thorough"
  SysName = "Go"
INIT Init
NEXT Next
INVARIANT Emit
