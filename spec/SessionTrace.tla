----------------------------- MODULE SessionTrace -----------------------------
(* Trace validation for C05: every record is one session executed on the real resolvers   *)
(* (one client, the plan's calls, digests of canonical graphs and of the client's answers). *)
(* Further record kinds: "orders" (the same universe inserted into the client in several     *)
(* orders: all result digests must agree) and "race" (a data race reported by the race       *)
(* detector during a concurrent batch: the model has no such action).                        *)
EXTENDS ResolveSession, Json, IOUtils, CSV
Obs == TLCEval(ndJsonDeserialize(IOEnv.VERIF_OBS))
RejFile == IOEnv.VERIF_REJ
VARIABLE row
Init == row = 0 /\ plan = <<>>
Next == row = 0 /\ row' \in 1..Len(Obs) /\ UNCHANGED plan
RowRej(o) ==
  CASE o.kind = "session" -> SessionViolations(o.client0, o.events)
    [] o.kind = "orders" -> {<<"result-depends-on-insertion-order", i>> : i \in {i \in 1..Len(o.digests) : o.digests[i] # o.digests[1]}}
    [] o.kind = "race" -> {<<"data-race-reported", 0>>}
Emit == row = 0 \/ \A x \in RowRej(Obs[row]) : CSVWrite("%1$s", <<ToJson([law |-> x[1], n |-> row, k |-> x[2]])>>, RejFile)
ASSUME CSVWrite("%1$s", <<ToJson([law |-> "stats", n |-> Len(Obs), k |-> 0])>>, RejFile)
=============================================================================
