CONSTANTS
  N = 3
  MaxEdges = 5
  WithErr = TRUE
  Variants = {0, 1, 2}
INIT Init
NEXT Next
INVARIANTS OrbitIsIso Emit
