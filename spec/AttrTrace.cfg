CONSTANTS
  Flags = {"f1", "f2", "f3"}
  Keys = {"k1", "k2", "k3"}
  Vals = {"", "a", "b c", "q\"x"}
  MaxOps = 0
INIT Init2
NEXT Next2
INVARIANT Emit
