CONSTANTS
  Tier = "quick"
  SysName = "NPM"
INIT Init
NEXT Next
INVARIANT Emit
