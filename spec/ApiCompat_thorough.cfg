CONSTANTS MaxDepth = 6
INIT Init
NEXT Next
INVARIANT Emit
