CONSTANTS
  N = 1
  MaxEdges = 1
  WithErr = TRUE
  Variants = {0, 1, 2}
INIT Init
NEXT Next
INVARIANTS OrbitIsIso Emit
