CONSTANTS MaxRounds = 200000 Family = "small"
INIT TInit
NEXT TNext
INVARIANTS StackOK DonePinsOK DoneLaws DoneLawsNoRepin
