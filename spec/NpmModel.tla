------------------------------ MODULE NpmModel ------------------------------
(* C06: what makes an npm resolution graph a valid, loadable node_modules installation.  *)
(* Universes are described over fixed pools: version pool NV (order and satisfaction from  *)
(* Ranges.tla) and requirement catalogue NR (ranges of every operator kind, "*", the tag   *)
(* "latest").  A universe: Seq of packages [name, versions : Seq([v, latest, dep, deps])],  *)
(* deps : Seq([name, r, kind, alias]), kind \in {"reg", "opt", "dev", "peer", "bundle"}.    *)
(* A result: graph [nodes : Seq([name, v, errs : Seq([name, r])]),                           *)
(*                  edges : Seq([f, t, r, kind, sel, alias])]  (node 1 = root)               *)
(*           tree  Seq([gid, name, v, parent, kids : Seq([name, idx]), akids : Seq([name, idx])]) *)
EXTENDS Ranges, SequencesExt

NVv(text, n, pre) == [text |-> text, v |-> [n |-> n, pre |-> pre]]
NV == << NVv("0.1.0", <<0, 1, 0>>, <<>>), NVv("0.2.0", <<0, 2, 0>>, <<>>), NVv("1.0.0-alpha", <<1, 0, 0>>, <<IdStr(1)>>),
         NVv("1.0.0", <<1, 0, 0>>, <<>>), NVv("1.0.1", <<1, 0, 1>>, <<>>), NVv("1.1.0", <<1, 1, 0>>, <<>>), NVv("1.2.0", <<1, 2, 0>>, <<>>),
         NVv("2.0.0-rc.1", <<2, 0, 0>>, <<IdStr(3), IdNum(1)>>), NVv("2.0.0", <<2, 0, 0>>, <<>>), NVv("2.1.0", <<2, 1, 0>>, <<>>),
         NVv("3.0.0", <<3, 0, 0>>, <<>>) >>
Pq(n) == [n |-> n, pre |-> <<>>, xs |-> "x"]
Pqp(n, pre) == [n |-> n, pre |-> pre, xs |-> "x"]
Cq(op, p) == [op |-> op, p |-> p]
RangeReq(r) == [text |-> NpmText(r), range |-> TRUE, ast |-> r]
TagReq(t) == [text |-> t, range |-> FALSE, ast |-> <<>>]
NR == << RangeReq(<<<<Cq("", [n |-> <<>>, pre |-> <<>>, xs |-> "*"])>>>>),                  \* 1  *
         RangeReq(<<<<Cq("^", Pq(<<1, 0, 0>>))>>>>), RangeReq(<<<<Cq("~", Pq(<<1, 0, 0>>))>>>>),
         RangeReq(<<<<Cq("^", Pq(<<2, 0, 0>>))>>>>), RangeReq(<<<<Cq(">=", Pq(<<1, 1, 0>>))>>>>),
         RangeReq(<<<<Cq("<", Pq(<<2, 0, 0>>))>>>>), RangeReq(<<<<Cq("", Pq(<<1, X>>))>>>>),
         RangeReq(<<<<[op |-> "-", p |-> Pq(<<1, 0, 0>>), q |-> Pq(<<1, 2, 0>>)]>>>>),
         RangeReq(<<<<Cq("^", Pq(<<1, 0, 0>>))>>, <<Cq("^", Pq(<<3, 0, 0>>))>>>>),
         RangeReq(<<<<Cq(">=", Pqp(<<2, 0, 0>>, <<IdStr(3), IdNum(1)>>))>>>>), RangeReq(<<<<Cq("", Pq(<<2, 0, 0>>))>>>>),
         TagReq("latest"),                                                                    \* 12
         RangeReq(<<<<Cq(">=", Pq(<<1, 0, 0>>)), Cq("<", Pq(<<2, 1, 0>>))>>>>), RangeReq(<<<<Cq("^", Pq(<<0, 1, 0>>))>>>>),
         RangeReq(<<<<Cq("=", Pq(<<1, 2, 0>>))>>>>), RangeReq(<<<<Cq("<=", Pq(<<1, 1, 0>>))>>>>), RangeReq(<<<<Cq(">", Pq(<<1, 2, 0>>))>>>>),
         RangeReq(<<<<Cq("~>", Pq(<<2, 0>>))>>>>), RangeReq(<<<<Cq(">=", Pqp(<<1, 0, 0>>, <<IdStr(1)>>))>>>>),
         RangeReq(<<<<Cq("^", Pq(<<4, 0, 0>>))>>>>) >>
StarReq == 1
NSat == TLCEval([r \in 1..Len(NR) |-> [i \in 1..Len(NV) |-> NR[r].range /\ NpmSat(NR[r].ast, NV[i].v)]])
NCls == TLCEval([i \in 1..Len(NV) |-> Cardinality({j \in 1..Len(NV) : VCmp(NV[j].v, NV[i].v) < 0})])

Elems(s) == {s[i] : i \in 1..Len(s)}
PkgOf(U, name) == CHOOSE p \in Elems(U) : p.name = name
HasPkg(U, name) == \E p \in Elems(U) : p.name = name
VersOfPkg(U, name) == IF HasPkg(U, name) THEN Elems(PkgOf(U, name).versions) ELSE {}
VerRec(U, name, v) == CHOOSE e \in VersOfPkg(U, name) : e.v = v
\* does version record e of a package satisfy requirement r ?  (range, or the dist-tag)
SatRec(r, e) == IF NR[r].range THEN NSat[r][e.v] ELSE (NR[r].text = "latest" /\ e.latest)
\* the version npm installs afresh: the latest-tagged one when it satisfies, otherwise the highest
\* satisfying one that is not deprecated (the highest one if all are)
Highest(S) == CHOOSE e \in S : \A f \in S : NCls[f.v] <= NCls[e.v]
ExpectedPick(U, name, r) ==
  LET M == {e \in VersOfPkg(U, name) : SatRec(r, e)} IN
  IF M = {} THEN 0
  ELSE IF \E e \in M : e.latest THEN (CHOOSE e \in M : e.latest).v
  ELSE IF \E e \in M : ~e.dep THEN Highest({e \in M : ~e.dep}).v
  ELSE Highest(M).v

(* ---- the validity clauses ---- *)
Eligible(d) == d.kind \notin {"dev", "peer"}
DepsOfNode(U, n) == Elems(VerRec(U, n.name, n.v).deps)
\* the directory name under which tree node x is installed (its package name, or the alias), "" for the root
DirNameOf(t, x) == IF x = 0 \/ t[x].parent = 0 THEN ""
                   ELSE LET p == t[t[x].parent] ks == {k \in Elems(p.kids) \cup Elems(p.akids) : k.idx = x} IN IF ks = {} THEN "" ELSE (CHOOSE k \in ks : TRUE).name
IsAliased(t, x) == x # 0 /\ t[x].parent # 0 /\ \E k \in Elems(t[t[x].parent].akids) : k.idx = x
TreeIdx(t, gid) == IF \E x \in 1..Len(t) : t[x].gid = gid THEN CHOOSE x \in 1..Len(t) : t[x].gid = gid ELSE 0
\* an edge is the resolution of a declaration of its source: same requirement and alias, and either the target is the
\* declared package at a version the requirement accepts (range, dist-tag, or "*" reusing an installed copy), or - npm binds
\* by directory name - the target sits in a directory of the declared name (its own alias, or the declaration's) and its
\* version string satisfies the range
EdgeSatisfied(U, g, t, e) ==
  LET to == g.nodes[e.t] from == g.nodes[e.f] x == TreeIdx(t, e.t) IN
  \E d \in DepsOfNode(U, from) : d.r = e.r /\ d.alias = e.alias /\
     \/ (d.name = to.name /\ \E rec \in VersOfPkg(U, to.name) : rec.v = to.v /\ (SatRec(e.r, rec) \/ (e.r = StarReq /\ ~e.sel)))
     \/ (x # 0 /\ (IsAliased(t, x) \/ d.alias # "") /\ DirNameOf(t, x) = (IF d.alias # "" THEN d.alias ELSE d.name) /\ NR[e.r].range /\ NSat[e.r][to.v])
\* npm: a package listed in optionalDependencies as well overrides its entry in dependencies; a bundleDependencies entry
\* adds nothing when the package is a regular dependency too
Overridden(ds, d) == (d.kind # "opt" /\ \E x \in ds : x.name = d.name /\ x.kind = "opt") \/ (d.kind = "bundle" /\ \E x \in ds : x.name = d.name /\ x.kind = "reg")
CompleteNode(U, g, t, i) ==
  \A d \in {x \in DepsOfNode(U, g.nodes[i]) : Eligible(x) /\ ~Overridden(DepsOfNode(U, g.nodes[i]), x)} :
     \/ \E e \in Elems(g.edges) : e.f = i /\ e.r = d.r /\ (g.nodes[e.t].name = d.name \/ (e.alias = d.alias /\ DirNameOf(t, TreeIdx(t, e.t)) = (IF d.alias # "" THEN d.alias ELSE d.name)))
     \/ \E er \in Elems(g.nodes[i].errs) : er.name = d.name /\ er.r = d.r
RECURSIVE ReachFrom(_, _)
ReachFrom(g, S) == LET T == S \cup {e.t : e \in {x \in Elems(g.edges) : x.f \in S}} IN IF T = S THEN S ELSE ReachFrom(g, T)
AllReachable(g) == ReachFrom(g, {1}) = 1..Len(g.nodes)
PickOK(U, g, e) == e.sel => g.nodes[e.t].v = ExpectedPick(U, g.nodes[e.t].name, e.r)
\* install tree
DirNames(tn) == [i \in 1..(Len(tn.kids) + Len(tn.akids)) |-> IF i <= Len(tn.kids) THEN tn.kids[i].name ELSE tn.akids[i - Len(tn.kids)].name]
OneNamePerDir(tn) == LET ns == DirNames(tn) IN \A i, j \in 1..Len(ns) : i # j => ns[i] # ns[j]
RECURSIVE Lookup(_, _, _)
Lookup(t, x, name) ==         \* Node's resolution: look in x's node_modules, then walk up
  IF x = 0 THEN 0
  ELSE IF \E k \in Elems(t[x].kids) : k.name = name THEN (CHOOSE k \in Elems(t[x].kids) : k.name = name).idx
  ELSE IF \E k \in Elems(t[x].akids) : k.name = name THEN (CHOOSE k \in Elems(t[x].akids) : k.name = name).idx
  ELSE Lookup(t, t[x].parent, name)
TreeOf(t, gid) == IF \E x \in 1..Len(t) : t[x].gid = gid THEN CHOOSE x \in 1..Len(t) : t[x].gid = gid ELSE 0
EdgeResolves(g, t, e) ==
  LET name == IF e.alias # "" THEN e.alias ELSE IF IsAliased(t, TreeOf(t, e.t)) THEN DirNameOf(t, TreeOf(t, e.t)) ELSE g.nodes[e.t].name IN   \* the name the dependent asks Node for
  TreeOf(t, e.f) # 0 /\ Lookup(t, TreeOf(t, e.f), name) = TreeOf(t, e.t)
GidsUnique(t) == \A x, y \in 1..Len(t) : (x # y /\ t[x].gid # 0) => t[x].gid # t[y].gid

\* all clauses, as a set of violated clause names with a witness index
NpmViolations(U, g, t) ==
     {<<"edge-not-satisfied", i>> : i \in {i \in 1..Len(g.edges) : ~EdgeSatisfied(U, g, t, g.edges[i])}}
  \cup {<<"requirement-neither-resolved-nor-reported", i>> : i \in {i \in 1..Len(g.nodes) : ~CompleteNode(U, g, t, i)}}
  \cup (IF AllReachable(g) THEN {} ELSE {<<"unreachable-node", 0>>})
  \cup {<<"fresh-install-pick", i>> : i \in {i \in 1..Len(g.edges) : ~PickOK(U, g, g.edges[i])}}
  \cup {<<"two-packages-one-name-in-directory", x>> : x \in {x \in 1..Len(t) : ~OneNamePerDir(t[x])}}
  \cup (IF GidsUnique(t) THEN {} ELSE {<<"graph-node-installed-twice", 0>>})
  \cup {<<"node-lookup-lands-elsewhere", i>> : i \in {i \in 1..Len(g.edges) : ~EdgeResolves(g, t, g.edges[i])}}
=============================================================================
