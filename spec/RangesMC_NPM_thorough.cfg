CONSTANTS
  Tier = "thorough"
  SysName = "NPM"
INIT Init
NEXT Next
INVARIANT Emit
