----------------------------- MODULE MavenModel -----------------------------
(* C07: what makes a Maven resolution graph obey Maven's mediation rules.                  *)
(* Universe: Seq of artifacts [name ("g:a"), versions : Seq([v, deps])], deps : Seq([name, r, *)
(* scope, opt, typ, cls, excl : Seq(pattern), mgmt]).  Versions are indices into MVP, require- *)
(* ments indices into MVR (soft = bare version, hard = bracketed ranges; VersionRange           *)
(* semantics from Ranges.tla, order from Order.tla).                                            *)
(* Result graph: nodes Seq([name, v, errs : Seq([name, r])]), edges Seq([f, t, r, scope, opt,   *)
(* test, typ, cls, sel, excl]) ; node 1 = root ; nodes are numbered in creation (BFS) order.     *)
EXTENDS Ranges, VersionDomain, SequencesExt

MVe(text, ast) == [text |-> text, items |-> MavenItems(ast)]
Plain(nums) == MavenAst(nums, "none", "", "none", 0, FALSE, FALSE)
MVP == << MVe("1.0", Plain(<<1, 0>>)), MVe("1.1", Plain(<<1, 1>>)), MVe("1.5", Plain(<<1, 5>>)), MVe("2.0-rc1", MavenAst(<<2, 0>>, "-", "rc", "", 1, FALSE, FALSE)),
          MVe("2.0", Plain(<<2, 0>>)), MVe("2.5", Plain(<<2, 5>>)), MVe("3.0", Plain(<<3, 0>>)) >>
MVCmp(i, j) == MavenCmpItems(MVP[i].items, MVP[j].items)
MVText(i) == MVP[i].text
Rr(lo, li, hi, hj, single) == [lo |-> lo, loIncl |-> li, hi |-> hi, hiIncl |-> hj, single |-> single]
Soft(i) == [soft |-> TRUE, v |-> i, rs |-> <<>>]
Hard(rs) == [soft |-> FALSE, v |-> 0, rs |-> rs]
\* 1..7 soft versions ; 8.. hard ranges
MVRq == << Soft(1), Soft(2), Soft(3), Soft(4), Soft(5), Soft(6), Soft(7),
           Hard(<<Rr(1, TRUE, 5, FALSE, FALSE)>>), Hard(<<Rr(3, TRUE, 0, FALSE, FALSE)>>), Hard(<<Rr(0, FALSE, 5, TRUE, FALSE)>>),
           Hard(<<Rr(5, TRUE, 5, TRUE, TRUE)>>), Hard(<<Rr(2, TRUE, 3, TRUE, FALSE)>>), Hard(<<Rr(5, FALSE, 7, TRUE, FALSE)>>),
           Hard(<<Rr(1, TRUE, 2, TRUE, FALSE), Rr(6, TRUE, 0, FALSE, FALSE)>>) >>
MVR == [r \in 1..Len(MVRq) |-> [q |-> MVRq[r], text |-> MvnText(MVRq[r], MVText)]]
IsSoft(r) == MVR[r].q.soft
MSat == TLCEval([r \in 1..Len(MVRq) |-> [i \in 1..Len(MVP) |-> MvnSat(MVRq[r], i, MVCmp)]])

El(s) == {s[i] : i \in 1..Len(s)}
ArtOf(U, name) == CHOOSE p \in El(U) : p.name = name
HasArt(U, name) == \E p \in El(U) : p.name = name
VerOfArt(U, name, v) == CHOOSE e \in El(ArtOf(U, name).versions) : e.v = v
NormTyp(t) == IF t = "jar" THEN "" ELSE t
KeyOfDep(d) == <<d.name, NormTyp(d.typ), d.cls>>
KeyOfEdge(g, e) == <<g.nodes[e.t].name, NormTyp(e.typ), e.cls>>
Creator(g, n) == CHOOSE e \in El(g.edges) : e.t = n /\ e.sel
HasCreator(g, n) == \E e \in El(g.edges) : e.t = n /\ e.sel
\* exclusions in force at node n: inherited along the chain of creating edges
RECURSIVE ExclAt(_, _)
ExclAt(g, n) == IF n = 1 \/ ~HasCreator(g, n) THEN {} ELSE LET e == Creator(g, n) IN ExclAt(g, e.f) \cup El(e.excl)
Group(name) == SubSeq(name, 1, (CHOOSE i \in 1..Len(name) : name[i] = ":"[1]) - 1)
\* names are "g<k>:a<k>" with single-character group / artifact parts in the generator: pattern matching by table
Excluded(ex, name, gOf, aOf) == "*:*" \in ex \/ name \in ex \/ (gOf \o ":*") \in ex \/ ("*:" \o aOf) \in ex
DepExcluded(ex, d) == Excluded(ex, d.name, d.g, d.a)
WarLike(t) == t \in {"war", "ear", "rar"}
NotTraversed(g, n) == n # 1 /\ HasCreator(g, n) /\ WarLike(Creator(g, n).typ)
RootOnly(d) == d.scope \in {"test", "provided"} \/ d.opt
Mgmt(U, root) == {d \in El(VerOfArt(U, root.name, root.v).deps) : d.mgmt}
ManagedReq(U, root, n, d) ==      \* the requirement a declaration carries after dependencyManagement
  IF n # 1 /\ \E m \in Mgmt(U, root) : KeyOfDep(m) = KeyOfDep(d)
  THEN (CHOOSE m \in Mgmt(U, root) : KeyOfDep(m) = KeyOfDep(d)).r ELSE d.r
DeclsOfNode(U, g, root, n) ==     \* eligible declarations of node n, with position and managed requirement
  IF NotTraversed(g, n) \/ ~HasArt(U, g.nodes[n].name) THEN {}
  ELSE LET ds == VerOfArt(U, g.nodes[n].name, g.nodes[n].v).deps IN
       {[n |-> n, i |-> i, d |-> ds[i], r |-> ManagedReq(U, root, n, ds[i])] :
          i \in {i \in 1..Len(ds) : ~ds[i].mgmt /\ (n = 1 \/ ~RootOnly(ds[i])) /\ ~DepExcluded(ExclAt(g, n), ds[i])}}
AllDecls(U, g, root) == UNION {DeclsOfNode(U, g, root, n) : n \in 1..Len(g.nodes)}
Before(x, y) == x.n < y.n \/ (x.n = y.n /\ x.i < y.i)

RangeAnywhere(U, key) == \E p \in El(U) : \E ev \in El(p.versions) : \E d \in El(ev.deps) : KeyOfDep(d) = key /\ ~IsSoft(d.r)
AnyRange(U) == \E p \in El(U) : \E ev \in El(p.versions) : \E d \in El(ev.deps) : ~IsSoft(d.r)
SoftDeclares(ev, key, v) == \E d \in El(ev.deps) : ~d.mgmt /\ KeyOfDep(d) = key /\ IsSoft(d.r) /\ MVRq[d.r].v = v
StaleReplaced(U, g, decls, key, v) == \E nq \in 2..Len(g.nodes) : HasArt(U, g.nodes[nq].name) /\
     \E ev \in El(ArtOf(U, g.nodes[nq].name).versions) : ev.v # g.nodes[nq].v /\ SoftDeclares(ev, key, v)
        \* the range that excludes the replaced version is met after that version was expanded - or is not visible in the graph any more
        /\ LET rs == {y \in decls : ~IsSoft(y.r) /\ y.d.name = g.nodes[nq].name /\ ~MSat[y.r][ev.v]} IN (\E y \in rs : nq < y.n) \/ (rs = {} /\ AnyRange(U))
\* (the farther declaration may be one the final graph does not follow - excluded on the path it is reached by now - but
\* which was followed in the abandoned attempt: any declaration of a version that is in the graph counts)
StaleOrder(U, g, decls, key, v) == /\ AnyRange(U)
                                   /\ \/ \E y \in decls : KeyOfDep(y.d) = key /\ IsSoft(y.r) /\ MVRq[y.r].v = v
                                      \/ \E n \in 2..Len(g.nodes) : HasArt(U, g.nodes[n].name) /\ SoftDeclares(VerOfArt(U, g.nodes[n].name, g.nodes[n].v), key, v)
\* the declaring package is absent from the graph, or one of its flavours (type / classifier) that the universe declares is
FlavourAbsent(U, g, name) == \E q \in El(U) : \E ev \in El(q.versions) : \E d \in El(ev.deps) : d.name = name /\ ~\E e \in El(g.edges) : KeyOfEdge(g, e) = KeyOfDep(d)
StaleAbandoned(U, g, key, v) == \E p \in El(U) : ((~\E k \in 1..Len(g.nodes) : g.nodes[k].name = p.name) \/ FlavourAbsent(U, g, p.name))
                                                   /\ \E ev \in El(p.versions) : (~\E k \in 1..Len(g.nodes) : g.nodes[k].name = p.name /\ g.nodes[k].v = ev.v) /\ SoftDeclares(ev, key, v)
\* softOnly: the universe contains no range requirement at all.  Nearest-wins is judged only then: with ranges
\* the resolver restarts and keeps the requirements it met in abandoned attempts, which the final graph does
\* not show (a soft 1.0 at the root may correctly yield 3.0 because an abandoned branch demanded (2.0,3.0]).
MavenViolations(U, root, g, softOnly) ==
  LET decls == AllDecls(U, g, root) IN
     {<<"two-versions-of-one-artifact", i>> : i \in {i \in 1..Len(g.edges) : \E j \in 1..Len(g.edges) :
          KeyOfEdge(g, g.edges[i]) = KeyOfEdge(g, g.edges[j]) /\ g.nodes[g.edges[i].t].v # g.nodes[g.edges[j].t].v}}
  \cup {<<"range-edge-outside-range", i>> : i \in {i \in 1..Len(g.edges) : ~IsSoft(g.edges[i].r) /\ ~MSat[g.edges[i].r][g.nodes[g.edges[i].t].v]}}
  \cup {<<"non-root-test-optional-provided-followed", i>> : i \in {i \in 1..Len(g.edges) : g.edges[i].f # 1 /\ (g.edges[i].test \/ g.edges[i].opt \/ g.edges[i].scope = "provided")}}
  \cup {<<"war-ear-rar-traversed", n>> : n \in {n \in 1..Len(g.nodes) : NotTraversed(g, n) /\ (g.nodes[n].errs # <<>> \/ \E e \in El(g.edges) : e.f = n)}}
  \cup {<<"excluded-artifact-reached", i>> : i \in {i \in 1..Len(g.edges) :
          LET e == g.edges[i] IN \E x \in decls : x.n = e.f /\ FALSE} \cup
          {i \in 1..Len(g.edges) : LET e == g.edges[i] nm == g.nodes[e.t].name IN
               \E p \in El(U) : p.name = nm /\ Excluded(ExclAt(g, e.f), nm, p.g, p.a)}}
  \cup {<<"management-not-applied", i>> : i \in {i \in 1..Len(g.edges) : LET e == g.edges[i] IN
          e.f # 1 /\ \E m \in Mgmt(U, root) : KeyOfDep(m) = KeyOfEdge(g, e) /\ e.r # m.r}}
  \cup {<<"management-applied-to-root-declaration", i>> : i \in {i \in 1..Len(g.edges) : LET e == g.edges[i] IN
          e.f = 1 /\ ~\E x \in decls : x.n = 1 /\ KeyOfDep(x.d) = KeyOfEdge(g, e) /\ x.d.r = e.r}}
  \cup {<<"declaration-neither-edge-nor-error", x.n>> : x \in {x \in decls :
          ~(\E e \in El(g.edges) : e.f = x.n /\ KeyOfEdge(g, e) = KeyOfDep(x.d) /\ e.r = x.r)
          /\ ~(\E er \in El(g.nodes[x.n].errs) : er.name = x.d.name)}}
  \cup {<<"unreachable-node", n>> : n \in {n \in 2..Len(g.nodes) : ~\E e \in El(g.edges) : e.t = n /\ e.f < n}}
  \* nearest wins, judged per artifact key that no declaration anywhere in the universe (dependencyManagement included)
  \* constrains with a range: its requirement list then holds soft versions only and the first one met decides.
  \* Two modelled deviations (recorded finding C07-F25): the resolver restarts after meeting a range that excludes a
  \* version chosen softly, and keeps the requirements it recorded in the abandoned attempt; a soft requirement declared
  \* only by the replaced version then still comes first.  (a) the declaring package is in the graph at another version
  \* and was expanded before some range declaration was met (its node precedes the declarer's); (b) the declaring
  \* package is not in the graph at all (it hung below a replaced version); (c) the version is the one a farther
  \* declaration of the final graph demands and the universe contains a range (a restart can have happened: that
  \* declaration was met first in the abandoned attempt, when the nearer declarer was not there yet; the range that
  \* caused the restart need not be visible in the final graph).
  \cup UNION {LET sel == {g.nodes[e.t].v : e \in {e \in El(g.edges) : KeyOfEdge(g, e) = KeyOfDep(x.d)}} IN
             {<<IF StaleReplaced(U, g, decls, KeyOfDep(x.d), v) THEN "stale-soft-requirement-of-a-version-replaced-after-it-was-expanded"
                ELSE IF StaleAbandoned(U, g, KeyOfDep(x.d), v) THEN "stale-soft-requirement-of-an-abandoned-branch"
                ELSE IF StaleOrder(U, g, decls, KeyOfDep(x.d), v) THEN "stale-order-a-farther-declaration-met-first-in-an-abandoned-attempt-wins"
                ELSE "nearest-declaration-does-not-win", x.n>> : v \in {v \in sel : v # MVRq[x.r].v}} :
          x \in {x \in decls : ~RangeAnywhere(U, KeyOfDep(x.d)) /\ IsSoft(x.r)
                                /\ \A y \in decls : KeyOfDep(y.d) = KeyOfDep(x.d) => (y = x \/ Before(x, y))}}
=============================================================================
