----------------------------- MODULE PipResolve -----------------------------
(* The PyPI resolver of util/resolve/pypi (a port of pip 21's resolvelib) as a state machine.      *)
(*   Start      - the root's requirements (markers evaluated without extras) become criteria         *)
(*   Round      - pick the unsatisfied criterion with the smallest preference key and try to pin it:  *)
(*                  candidates from the highest down; a candidate works when each of its active        *)
(*                  requirements merges into the criteria (non-empty candidate list);                  *)
(*                  success -> pin (moved to the end of the mapping), criteria updated, state pushed   *)
(*                  failure -> Backtrack                                                              *)
(*   Backtrack  - unwind the state stack as resolvelib does, carrying incompatibilities back           *)
(*   Finish     - nothing unsatisfied: build the graph (connected pins, one edge per recorded           *)
(*                requirement whose parent PACKAGE is in the graph)                                    *)
(* What util/semver answers for (requirement, version) - Match, MatchVersionPrerelease,               *)
(* HasPrerelease - is an input table (those are C03's business); everything else is modelled from     *)
(* the code: the criteria keep every requirement with the VERSION that declared it, nothing is          *)
(* removed when a pin is replaced in place, extras are the union over all recorded requirements.       *)
EXTENDS PipModel, TLC, Json, IOUtils
CONSTANT MaxRounds
VARIABLES U, root, states, phase, rounds, result, repinned
prvars == <<U, root, states, phase, rounds, result, repinned>>
MatchTab == TLCEval(JsonDeserialize(IOEnv.VERIF_MATCH))      \* [match, matchpre : Seq(Seq(BOOLEAN)), haspre : Seq(BOOLEAN)]
Match(r, i) == MatchTab.match[r][i]
MatchPre(r, i) == MatchTab.matchpre[r][i]
HasPre(r) == MatchTab.haspre[r]
RootKey == <<root.name, root.v>>

(* ---- provider ---- *)
Asc(S) == SetToSortSeq(S, LAMBDA a, b : a < b)                 \* pool indices are in PEP 440 order
VersionsOf(name) == IF Known(U, name) THEN HaveOf(U, name) ELSE {}
\* matchingVersions: the client's answer, except that a requirement on the root package can only be met by the root version
MV(name, r) == LET s == {i \in VersionsOf(name) : Match(r, i)} IN
               IF name = root.name THEN (IF root.v \in s THEN <<root.v>> ELSE <<>>) ELSE Asc(s)
\* matchingVersionsWithPrereleases (no special case for the root package on this path)
MVPre(name, r) == IF HasPre(r) THEN MV(name, r) ELSE Asc({i \in VersionsOf(name) : MatchPre(r, i)})
SeqSet(s) == {s[i] : i \in 1..Len(s)}
\* findMatches: [conflict |-> BOOLEAN, cands |-> ascending Seq]
FindMatches(name, reqs, incompat) ==
  LET anyPre == Len(reqs) > 1 /\ \E k \in 1..Len(reqs) : HasPre(reqs[k].r)
      get(r) == IF anyPre THEN MVPre(name, r) ELSE MV(name, r)
      firstm == SelectSeq(get(reqs[1].r), LAMBDA v : v \notin incompat)
  IN IF firstm = <<>> THEN [conflict |-> TRUE, cands |-> <<>>]
     ELSE [conflict |-> FALSE, cands |-> SelectSeq(firstm, LAMBDA v : \A k \in 2..Len(reqs) : v \in SeqSet(get(reqs[k].r)))]
NoCrit == [cands |-> <<>>, reqs |-> <<>>, parents |-> <<>>, incompat |-> {}, extras |-> {}]
CritOf(st, name) == IF name \in DOMAIN st.criteria THEN st.criteria[name] ELSE NoCrit
\* mergeIntoCriterion: [ok, crit]
Merge(st, req, parent) ==
  LET crit == CritOf(st, req.name)
      dup == \E k \in 1..Len(crit.reqs) : crit.reqs[k] = req /\ crit.parents[k] = parent
      reqs2 == Append(crit.reqs, req)
      fm == FindMatches(req.name, reqs2, crit.incompat)
  IN IF dup THEN [ok |-> TRUE, crit |-> crit]
     ELSE IF fm.conflict \/ fm.cands = <<>> THEN [ok |-> FALSE, crit |-> crit]
     ELSE [ok |-> TRUE, crit |-> [cands |-> fm.cands, reqs |-> reqs2, parents |-> Append(crit.parents, parent),
                                  incompat |-> crit.incompat, extras |-> crit.extras \cup Els(req.extras)]]
\* getDependencies: the requirements of a version whose marker is true for the given extras, in declaration order
DepsFor(name, v, extras) == SelectSeq((CHOOSE e \in Els(PkgRec(U, name).versions) : e.v = v).deps, LAMBDA d : MarkerTrue(d.m, extras))
Pin(st, name) == IF \E k \in 1..Len(st.mapping) : st.mapping[k][1] = name THEN (CHOOSE k \in 1..Len(st.mapping) : st.mapping[k][1] = name) ELSE 0
PinnedV(st, name) == st.mapping[Pin(st, name)][2]
Satisfied(st, name) == Pin(st, name) # 0 /\ PinnedV(st, name) \in SeqSet(st.criteria[name].cands)
\* preference key: restrictive rating, position among the root's requirements, name
ReqTextHasEq(r) == \E k \in 1..Len(PRq[r]) : PRq[r][k].op = "=="
Rating(st, name) == LET rs == st.criteria[name].reqs IN
   IF rs = <<>> THEN 3 ELSE IF ReqTextHasEq(rs[1].r) THEN 1 ELSE 2        \* every requirement of the pools has a non-empty text: the first one decides
UserOrder(name) == LET ds == DepsFor(root.name, root.v, {}) IN
   IF \E k \in 1..Len(ds) : ds[k].name = name THEN (CHOOSE k \in 1..Len(ds) : ds[k].name = name /\ \A j \in (k + 1)..Len(ds) : ds[j].name # name) ELSE 1000
NameLess(a, b) ==      \* Go string order, by a table of the names the family uses
   LET ord == [n \in {"pa", "pb", "pc", "pd", "root"} |-> CASE n = "pa" -> 1 [] n = "pb" -> 2 [] n = "pc" -> 3 [] n = "pd" -> 4 [] n = "root" -> 5] IN ord[a] < ord[b]
PrefLess(st, a, b) == LET ra == Rating(st, a) rb == Rating(st, b) oa == UserOrder(a) ob == UserOrder(b) IN
   IF ra # rb THEN ra < rb ELSE IF oa # ob THEN oa < ob ELSE NameLess(a, b)
Top == states[Len(states)]
Unsatisfied(st) == {n \in DOMAIN st.criteria : ~Satisfied(st, n)}
Chosen(st) == CHOOSE n \in Unsatisfied(st) : \A m \in Unsatisfied(st) \ {n} : PrefLess(st, n, m)
\* getCriteriaToUpdate for one candidate: every merge starts from the state's criteria; [ok, upd : function name -> crit]
RECURSIVE MergeAll(_, _, _, _)
MergeAll(st, deps, parent, acc) == IF deps = <<>> THEN [ok |-> TRUE, upd |-> acc]
   ELSE LET m == Merge(st, Head(deps), parent) IN
        IF ~m.ok THEN [ok |-> FALSE, upd |-> acc] ELSE MergeAll(st, Tail(deps), parent, [n \in DOMAIN acc \cup {Head(deps).name} |-> IF n = Head(deps).name THEN m.crit ELSE acc[n]])
Emp == [n \in {} |-> NoCrit]
TryCand(st, name, v) == MergeAll(st, DepsFor(name, v, st.criteria[name].extras), <<name, v>>, Emp)
\* attemptToPinCriterion: the highest candidate that works, or 0
RECURSIVE BestCand(_, _, _)
BestCand(st, name, k) == IF k = 0 THEN 0 ELSE IF TryCand(st, name, st.criteria[name].cands[k]).ok THEN k ELSE BestCand(st, name, k - 1)
SetPin(mapping, name, v) == Append(SelectSeq(mapping, LAMBDA p : p[1] # name), <<name, v>>)
Put(criteria, upd) == [n \in DOMAIN criteria \cup DOMAIN upd |-> IF n \in DOMAIN upd THEN upd[n] ELSE criteria[n]]

(* ---- backtracking, as resolvelib: returns the new stack, or <<>> when all options are exhausted ---- *)
RECURSIVE PatchAll(_, _)
\* incs : Seq([name, incompat]) ; st : state being patched ; result [ok, st]
PatchAll(incs, st) == IF incs = <<>> THEN [ok |-> TRUE, st |-> st]
   ELSE LET inc == Head(incs) IN
        IF inc.incompat = {} \/ inc.name \notin DOMAIN st.criteria THEN PatchAll(Tail(incs), st)
        ELSE LET crit == st.criteria[inc.name]
                 allinc == inc.incompat \cup crit.incompat
                 ms == SelectSeq(crit.cands, LAMBDA v : v \notin allinc)
             IN IF ms = <<>> THEN [ok |-> FALSE, st |-> st]
                ELSE PatchAll(Tail(incs), [st EXCEPT !.criteria = [@ EXCEPT ![inc.name] = [crit EXCEPT !.incompat = allinc, !.cands = ms]]])
CritSeq(st) == LET ns == SetToSeq(DOMAIN st.criteria) IN [k \in 1..Len(ns) |-> [name |-> ns[k], incompat |-> st.criteria[ns[k]].incompat]]
RECURSIVE Unwind(_)
Unwind(sts) == IF Len(sts) < 3 THEN <<>>
   ELSE LET s1 == SubSeq(sts, 1, Len(sts) - 1)                 \* drop the state that triggered backtracking
            broken == s1[Len(s1)]
            s2 == SubSeq(s1, 1, Len(s1) - 1)                    \* drop the state with the problematic pin
            last == broken.mapping[Len(broken.mapping)]
            incs == CritSeq(broken) \o <<[name |-> last[1], incompat |-> {last[2]}]>>
            base == s2[Len(s2)]
            p == PatchAll(incs, base)
        IN IF p.ok THEN Append(s2, p.st) ELSE Unwind(Append(s2, p.st))

(* ---- the graph of a finished state ---- *)
RECURSIVE Conn(_, _)
Conn(st, C) == LET D == C \cup {<<p[1], p[2]>> : p \in {q \in SeqSet(st.mapping) : \E k \in 1..Len(st.criteria[q[1]].parents) : st.criteria[q[1]].parents[k] \in C}} IN
               IF D = C THEN C ELSE Conn(st, D)
BuildGraph(st) ==
  LET conn == Conn(st, {RootKey})
      picked == SelectSeq(st.mapping, LAMBDA p : <<p[1], p[2]>> \in conn /\ p[1] # root.name)
      nodes == <<[name |-> root.name, v |-> root.v]>> \o [k \in 1..Len(picked) |-> [name |-> picked[k][1], v |-> picked[k][2]]]
      idOf(name) == CHOOSE k \in 1..Len(nodes) : nodes[k].name = name
      inG(name) == \E k \in 1..Len(nodes) : nodes[k].name = name
      edges == UNION {{[f |-> idOf(st.criteria[n].parents[k][1]), t |-> idOf(n), r |-> st.criteria[n].reqs[k].r, m |-> st.criteria[n].reqs[k].m, extras |-> st.criteria[n].reqs[k].extras] :
                         k \in {k \in 1..Len(st.criteria[n].reqs) : inG(st.criteria[n].parents[k][1])}} : n \in {n \in DOMAIN st.criteria : inG(n)}}
  IN [nodes |-> nodes, edges |-> edges]

(* ---- actions ---- *)
RECURSIVE StartCrit(_, _)
StartCrit(deps, st) == IF deps = <<>> THEN [ok |-> TRUE, st |-> st]
   ELSE LET m == Merge(st, Head(deps), RootKey) IN
        IF ~m.ok THEN [ok |-> FALSE, st |-> st] ELSE StartCrit(Tail(deps), [st EXCEPT !.criteria = Put(@, [n \in {Head(deps).name} |-> m.crit])])
Start == /\ phase = "start"
         /\ LET s0 == [mapping |-> <<>>, criteria |-> Emp]
                i == StartCrit(DepsFor(root.name, root.v, {}), s0)
            IN IF i.ok THEN states' = <<i.st, i.st>> /\ phase' = "rounds" /\ result' = result
               ELSE states' = <<s0>> /\ phase' = "impossible" /\ result' = [gerr |-> TRUE, nodes |-> <<>>, edges |-> {}]
         /\ rounds' = 0 /\ UNCHANGED <<U, root, repinned>>
Round == /\ phase = "rounds" /\ rounds < MaxRounds /\ Unsatisfied(Top) # {}
         /\ LET st == Top
                name == Chosen(st)
                k == BestCand(st, name, Len(st.criteria[name].cands))
            IN IF k # 0
               THEN LET v == st.criteria[name].cands[k]
                        t == TryCand(st, name, v)
                        st2 == [mapping |-> SetPin(st.mapping, name, v), criteria |-> Put(st.criteria, t.upd)]
                    IN states' = Append(SubSeq(states, 1, Len(states) - 1), st2) \o <<st2>> /\ phase' = phase /\ result' = result
                       /\ repinned' = (repinned \/ Pin(st, name) # 0)          \* a pin replaced in place (history variable)
               ELSE LET u == Unwind(states) IN
                    /\ repinned' = repinned
                    /\ IF u = <<>> THEN states' = states /\ phase' = "impossible" /\ result' = [gerr |-> TRUE, nodes |-> <<>>, edges |-> {}]
                       ELSE states' = u /\ phase' = phase /\ result' = result
         /\ rounds' = rounds + 1 /\ UNCHANGED <<U, root>>
Finish == /\ phase = "rounds" /\ Unsatisfied(Top) = {}
          /\ phase' = "done" /\ result' = [gerr |-> FALSE] @@ BuildGraph(Top)
          /\ UNCHANGED <<U, root, states, rounds, repinned>>
PRNext == Start \/ Round \/ Finish
PRInit(u, rt) == U = u /\ root = rt /\ states = <<>> /\ phase = "start" /\ rounds = 0 /\ result = [gerr |-> FALSE, nodes |-> <<>>, edges |-> {}] /\ repinned = FALSE

(* ---- what the design guarantees ---- *)
RoundsBounded == ~(phase = "rounds" /\ rounds = MaxRounds /\ Unsatisfied(Top) # {})
\* the stack always keeps the pin-free base state and a working copy
StackOK == phase = "rounds" => (Len(states) >= 2 /\ states[1].mapping = <<>>)
\* every pin is a candidate of its criterion when the resolver stops
DonePinsOK == phase = "done" => \A n \in DOMAIN Top.criteria : Satisfied(Top, n)
GraphOf == [nodes |-> result.nodes, edges |-> SetToSeq(result.edges)]
\* a returned graph breaks C08 only in the ways recorded as findings C08-F20 / F21 / F24
KnownDeviations == {"extra-guarded-requirement-missing-when-extras-arrive-after-the-pin", "prerelease-of-exclusive-upper-bound-admitted",
                    "prerelease-admitted-by-requirement-of-an-abandoned-version", "edge-from-extra-guarded-requirement-enabled-by-an-abandoned-version"}
DoneLaws == phase = "done" => \A x \in PipViolations(U, root, GraphOf) : x[1] \in KnownDeviations
\* where the deviations come from: as long as no pin was ever replaced in place, the only way a returned graph can break C08
\* is the interval reading of an exclusive upper bound (F21) or extras that arrive after the pin (F20, which needs no
\* replacement: the pin simply stays); the stale-criteria deviations (F24) need a replaced pin
DoneLawsNoRepin == (phase = "done" /\ ~repinned) => \A x \in PipViolations(U, root, GraphOf) :
                       x[1] \in {"prerelease-of-exclusive-upper-bound-admitted", "extra-guarded-requirement-missing-when-extras-arrive-after-the-pin"}
\* stated without the stale-criteria deviations only: expected to fail, the counterexample is the design-level form of C08-F24
DoneNoStale == phase = "done" => \A x \in PipViolations(U, root, GraphOf) :
                  x[1] \in {"prerelease-of-exclusive-upper-bound-admitted", "extra-guarded-requirement-missing-when-extras-arrive-after-the-pin"}
\* stated WITHOUT the deviations: expected to fail (design-level form of the findings)
DoneStrict == phase = "done" => PipViolations(U, root, GraphOf) = {}
=============================================================================
