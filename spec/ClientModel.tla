---------------------------- MODULE ClientModel ----------------------------
(* Abstract model of requirement matching over a version list (C12) and of the in-memory *)
(* client (C14).  Versions are indices into a small per-system pool whose order and      *)
(* requirement satisfaction come from the reference models (Order.tla, Ranges.tla); the  *)
(* pool deliberately contains equal-comparing distinct spellings, prereleases and (NPM)  *)
(* unparsable strings.  Attribute variants: 1 none, 2 Tags="latest", 3 Tags="beta",       *)
(* 4 Blocked.                                                                             *)
EXTENDS Ranges, VersionDomain, SequencesExt

(* ----------------------------------------------------------- version pools *)
NpmV(text, pars, n, pre) == [text |-> text, pars |-> pars, v |-> [n |-> n, pre |-> pre]]
NpmPool == <<
  NpmV("1.0.0", TRUE, <<1, 0, 0>>, <<>>), NpmV("v1.0.0", TRUE, <<1, 0, 0>>, <<>>),
  NpmV("1.0.0-alpha", TRUE, <<1, 0, 0>>, <<IdStr(1)>>), NpmV("1.5.0", TRUE, <<1, 5, 0>>, <<>>),
  NpmV("2.0.0-rc.1", TRUE, <<2, 0, 0>>, <<IdStr(3), IdNum(1)>>), NpmV("2.0.0", TRUE, <<2, 0, 0>>, <<>>),
  NpmV("zzz", FALSE, <<0, 0, 0>>, <<>>), NpmV("beta", FALSE, <<0, 0, 0>>, <<>>), NpmV("1.0.0-beta", TRUE, <<1, 0, 0>>, <<IdStr(2)>>) >>
PyV2(text, rel) == [text |-> text, pars |-> TRUE, v |-> [rel |-> rel]]
PyPool == << PyV2("1.0", <<1, 0>>), PyV2("1.0.0", <<1, 0, 0>>), PyV2("1.5", <<1, 5>>), PyV2("2.0", <<2, 0>>),
             PyV2("0.9", <<0, 9>>), PyV2("1.0.1", <<1, 0, 1>>), PyV2("2", <<2>>) >>
MvV(text, ast) == [text |-> text, pars |-> TRUE, v |-> MavenItems(ast)]
MvPool == <<
  MvV("1", MavenAst(<<1>>, "none", "", "none", 0, FALSE, FALSE)), MvV("1.0", MavenAst(<<1, 0>>, "none", "", "none", 0, FALSE, FALSE)),
  MvV("1.0-alpha-1", MavenAst(<<1, 0>>, "-", "alpha", "-", 1, FALSE, FALSE)), MvV("1.5", MavenAst(<<1, 5>>, "none", "", "none", 0, FALSE, FALSE)),
  MvV("2.0", MavenAst(<<2, 0>>, "none", "", "none", 0, FALSE, FALSE)), MvV("2.0-beta2", MavenAst(<<2, 0>>, "-", "beta", "", 2, FALSE, FALSE)),
  MvV("1.0-SNAPSHOT", MavenAst(<<1, 0>>, "none", "", "none", 0, TRUE, FALSE)) >>
Pool(sys) == CASE sys = "NPM" -> NpmPool [] sys = "PyPI" -> PyPool [] sys = "Maven" -> MvPool
VCmpP(sys, i, j) ==
  CASE sys = "NPM" -> VCmp(NpmPool[i].v, NpmPool[j].v)
    [] sys = "PyPI" -> CmpNums(PyPool[i].v.rel, PyPool[j].v.rel)
    [] sys = "Maven" -> MavenCmpItems(MvPool[i].v, MvPool[j].v)
\* class of a pool element in ascending ecosystem order; unparsable strings come after all parsable ones
ClsTab == TLCEval([sys \in {"NPM", "PyPI", "Maven"} |->
            [i \in 1..Len(Pool(sys)) |-> IF Pool(sys)[i].pars
                THEN Cardinality({j \in 1..Len(Pool(sys)) : Pool(sys)[j].pars /\ VCmpP(sys, j, i) < 0}) ELSE 1000]])
Cls(sys, i) == ClsTab[sys][i]
IsPreV(sys, i) == sys = "NPM" /\ NpmPool[i].pars /\ NpmPool[i].v.pre # <<>>
AttrTags(a) == CASE a = 2 -> {"latest"} [] a = 3 -> {"beta"} [] OTHER -> {}

(* ------------------------------------------------------------ requirements *)
\* [text, range, ast]: range = FALSE means an npm non-range requirement (tag or exact string)
NpmReq(r) == [text |-> NpmText(r), range |-> TRUE, ast |-> r]
Tag(t) == [text |-> t, range |-> FALSE, ast |-> <<>>]
Pn(n) == [n |-> n, pre |-> <<>>, xs |-> "x"]
Ppre(n, pre) == [n |-> n, pre |-> pre, xs |-> "x"]
Cmr(op, p) == [op |-> op, p |-> p]
NpmReqs == << NpmReq(<<<<Cmr("", [n |-> <<>>, pre |-> <<>>, xs |-> "*"])>>>>), NpmReq(<<<<Cmr("^", Pn(<<1, 0, 0>>))>>>>),
              NpmReq(<<<<Cmr("<", Pn(<<2, 0, 0>>))>>>>), NpmReq(<<<<Cmr("", Pn(<<1, 0, 0>>))>>>>),
              NpmReq(<<<<Cmr(">=", Ppre(<<1, 0, 0>>, <<IdStr(1)>>))>>>>), NpmReq(<<<<Cmr(">=", Ppre(<<2, 0, 0>>, <<IdStr(3), IdNum(1)>>))>>>>),
              NpmReq(<<<<Cmr(">", Pn(<<2, 0, 0>>))>>>>),
              NpmReq(<<<<Cmr(">=", Ppre(<<1, 0, 0>>, <<IdStr(1)>>)), Cmr("<", Pn(<<1, 0, 0>>))>>>>),
              NpmReq(<<<<Cmr("", Ppre(<<1, 0, 0>>, <<IdStr(1)>>))>>, <<Cmr("", Ppre(<<2, 0, 0>>, <<IdStr(3), IdNum(1)>>))>>>>),
              Tag("latest"), Tag("beta"), Tag("zzz"), Tag("nope"),
              Tag("bet"), Tag("eta"), Tag("late") >>      \* proper substrings of the tags in use: must select nothing
PyC(op, rel) == [op |-> op, rel |-> rel, star |-> FALSE, pre |-> <<>>, post |-> -1, dev |-> -1]
PyReq(r) == [text |-> PySpecText(r), range |-> TRUE, ast |-> r]
PyReqs == << PyReq(<<PyC(">=", <<0>>)>>), PyReq(<<PyC(">=", <<1, 0>>)>>), PyReq(<<PyC("==", <<1, 0>>)>>), PyReq(<<PyC("<", <<2>>)>>),
             PyReq(<<PyC("~=", <<1, 0>>)>>), PyReq(<<PyC("!=", <<1, 5>>)>>), PyReq(<<PyC(">=", <<1>>), PyC("<", <<2>>)>>),
             PyReq(<<PyC(">", <<3>>)>>) >>
\* Maven restrictions over pool indices (bounds are pool elements): [1,2.0) , [1.0] , (,1.5] , soft 1.5 , [2.0,) , (2.0,)
MvR(lo, li, hi, hj, single) == [lo |-> lo, loIncl |-> li, hi |-> hi, hiIncl |-> hj, single |-> single]
MvT(i) == MvPool[i].text
MvCm(i, j) == VCmpP("Maven", i, j)
MvReqOf(q) == [text |-> MvnText(q, MvT), range |-> TRUE, ast |-> q]
MvReqs == << MvReqOf([soft |-> FALSE, v |-> 0, rs |-> <<MvR(1, TRUE, 5, FALSE, FALSE)>>]), MvReqOf([soft |-> FALSE, v |-> 0, rs |-> <<MvR(2, TRUE, 2, TRUE, TRUE)>>]),
             MvReqOf([soft |-> FALSE, v |-> 0, rs |-> <<MvR(0, FALSE, 4, TRUE, FALSE)>>]), MvReqOf([soft |-> TRUE, v |-> 4, rs |-> <<>>]),
             MvReqOf([soft |-> FALSE, v |-> 0, rs |-> <<MvR(5, TRUE, 0, FALSE, FALSE)>>]), MvReqOf([soft |-> FALSE, v |-> 0, rs |-> <<MvR(5, FALSE, 0, FALSE, FALSE)>>]) >>
Reqs(sys) == CASE sys = "NPM" -> NpmReqs [] sys = "PyPI" -> PyReqs [] sys = "Maven" -> MvReqs

\* does pool element i (with attribute variant a) satisfy requirement number r ?
SatTab == TLCEval([sys \in {"NPM", "PyPI", "Maven"} |-> [r \in 1..Len(Reqs(sys)) |-> [i \in 1..Len(Pool(sys)) |->
            IF ~Reqs(sys)[r].range THEN FALSE
            ELSE CASE sys = "NPM" -> NpmPool[i].pars /\ NpmSat(Reqs(sys)[r].ast, NpmPool[i].v)
                   [] sys = "PyPI" -> PySat(Reqs(sys)[r].ast, PyPool[i].v)
                   [] sys = "Maven" -> MvnSat(Reqs(sys)[r].ast, i, MvCm)]]])
SatE(sys, r, e) ==     \* e = [v |-> pool index, a |-> attribute variant]
  IF Reqs(sys)[r].range THEN SatTab[sys][r][e.v]
  ELSE Pool(sys)[e.v].text = Reqs(sys)[r].text \/ Reqs(sys)[r].text \in AttrTags(e.a)

(* ------------------------------------------------------------- C12 oracle *)
\* L : set of entries [v, a] with pairwise distinct v.  out : the observed result (sequence of entries).
NoDup(s) == \A i \in 1..Len(s) : \A j \in 1..Len(s) : i # j => s[i] # s[j]
SeqSet(s) == {s[i] : i \in 1..Len(s)}
NonDecreasing(sys, s) == \A i \in 1..(Len(s) - 1) : Cls(sys, s[i].v) <= Cls(sys, s[i + 1].v)
LatestOf(L) == {e \in L : "latest" \in AttrTags(e.a)}
\* npm: the latest-tagged version goes last unless it is a prerelease while releases exist in the list
MovesLast(sys, L) == sys = "NPM" /\ \E e \in LatestOf(L) : ~(IsPreV(sys, e.v) /\ \E f \in L : ~IsPreV(sys, f.v))
OrderedOK(sys, L, out) ==
  IF Cardinality(LatestOf(L)) > 1 THEN TRUE      \* out of domain: dist-tags are unique per package
  ELSE IF MovesLast(sys, L) /\ \E e \in LatestOf(L) : e \in SeqSet(out)
  THEN out[Len(out)] \in LatestOf(L) /\ NonDecreasing(sys, SubSeq(out, 1, Len(out) - 1))
  ELSE NonDecreasing(sys, out)
MatchOK(sys, r, L, out) ==
  IF Reqs(sys)[r].range \/ sys # "NPM"
  THEN NoDup(out) /\ SeqSet(out) = {e \in L : SatE(sys, r, e)} /\ OrderedOK(sys, L, out)
  ELSE LET c == {e \in L : SatE(sys, r, e)} IN
       IF c = {} THEN out = <<>> ELSE Len(out) = 1 /\ out[1] \in c
\* sorting alone (resolve.SortVersions)
SortOK(sys, L, out) == NoDup(out) /\ SeqSet(out) = L /\ OrderedOK(sys, L, out)

(* ---------------------------------------------------- C14: the client model *)
\* dependency lists (requirements of a version): ids into a small table; npm resolution order is
\* dev last, then case-insensitive name (alias name if present), then the upper/lower tie reversed.
\* Names and their order are fixed here: "a" < "B" = "b" case-insensitively; among B / b : "b" first.
DepLists == <<
  <<>>,
  << [name |-> "b", req |-> "^1.0.0", kind |-> "reg"], [name |-> "a", req |-> "*", kind |-> "dev"], [name |-> "B", req |-> "1.0.0", kind |-> "reg"] >>,
  << [name |-> "q", req |-> ">=1.0.0", kind |-> "reg"], [name |-> "a", req |-> "*", kind |-> "opt"] >>,
  << [name |-> "a", req |-> "2.0.0", kind |-> "dev"], [name |-> "p", req |-> "*", kind |-> "reg"] >> >>
NameRank(n) == CASE n = "a" -> 1 [] n = "b" -> 2 [] n = "B" -> 3 [] n = "p" -> 4 [] n = "q" -> 5
DepBefore(sys, x, y) ==      \* strict order used by the client for NPM
  IF (x.kind = "dev") # (y.kind = "dev") THEN y.kind = "dev" ELSE NameRank(x.name) < NameRank(y.name)
DepsOrderedOK(sys, given, out) ==
  /\ Len(out) = Len(given) /\ SeqSet(out) = SeqSet(given)
  /\ (sys = "NPM" => \A i \in 1..(Len(out) - 1) : DepBefore(sys, out[i], out[i + 1]))
  /\ (sys # "NPM" => out = given)
DepNames(d) == {DepLists[d][i].name : i \in 1..Len(DepLists[d])}

\* state: known : set of package names ; vers : [pkg -> set of [v, a]] ; deps : [key <<pkg, v>> -> dep list id]
\* AddVersion(pkg, v, a, deleted, d): a deleted-flagged addition changes nothing.
AddKnown(known, pkg, d) == known \cup {pkg} \cup DepNames(d)
AddVers(vers, pkg, v, a) ==
  LET old == IF pkg \in DOMAIN vers THEN vers[pkg] ELSE {}
      new == {e \in old : e.v # v} \cup {[v |-> v, a |-> a]}
  IN [x \in DOMAIN vers \cup {pkg} |-> IF x = pkg THEN new ELSE vers[x]]
AddDeps(deps, pkg, v, d) == [k \in DOMAIN deps \cup {<<pkg, v>>} |-> IF k = <<pkg, v>> THEN d ELSE deps[k]]
=============================================================================
