----------------------------- MODULE MavenTrace -----------------------------
EXTENDS MavenModel, Json, IOUtils, CSV
Obs == TLCEval(ndJsonDeserialize(IOEnv.VERIF_OBS))
RejFile == IOEnv.VERIF_REJ
VARIABLE row
Init == row = 0
Next == row = 0 /\ row' \in 1..Len(Obs)
Emit == row = 0 \/ (Obs[row].ok =>
          \A x \in MavenViolations(Obs[row].universe, Obs[row].root, Obs[row].graph, Obs[row].softonly) :
             CSVWrite("%1$s", <<ToJson([law |-> x[1], n |-> row, k |-> x[2]])>>, RejFile))
ASSUME CSVWrite("%1$s", <<ToJson([law |-> "stats", n |-> Len(Obs), k |-> 0])>>, RejFile)
=============================================================================
