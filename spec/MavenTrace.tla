----------------------------- MODULE MavenTrace -----------------------------
EXTENDS MavenModel, Json, IOUtils, CSV
Obs == TLCEval(ndJsonDeserialize(IOEnv.VERIF_OBS))
RejFile == IOEnv.VERIF_REJ
VARIABLE row
Init == row = 0
Next == row = 0 /\ row' \in 1..Len(Obs)
\* records replayed from MavenResolveMC carry the graph the algorithm model returns: the real resolver must return the same
\* (same nodes in creation order with the same errors, same edges); a difference is reported as information - the verdict on
\* C07 is always the laws evaluated on the REAL graph - and tells that MavenResolve.tla no longer describes the code
HasModel(o) == "model" \in DOMAIN o
AsSet(s) == {s[i] : i \in 1..Len(s)}
ModelDiff(o) == IF ~HasModel(o) THEN {}
                ELSE IF o.model.fatal # (~o.ok) THEN {"info-resolver-error-differs-from-algorithm-model"}
                ELSE IF o.ok /\ (o.graph.nodes # o.model.nodes \/ AsSet(o.graph.edges) # AsSet(o.model.edges)) THEN {"info-graph-differs-from-algorithm-model"}
                ELSE {}
\* The stale-requirement deviations (recorded finding C07-F25) need a restart (design-level statement
\* MavenResolve!DoneAllLawsWithoutRestart: a resolution that never restarted obeys every law, nearest-wins included).  The
\* harness reports whether the real resolution restarted; the same symptom without a restart is not that finding.
StaleNames == {"stale-soft-requirement-of-a-version-replaced-after-it-was-expanded", "stale-soft-requirement-of-an-abandoned-branch",
               "stale-order-a-farther-declaration-met-first-in-an-abandoned-attempt-wins"}
Restarted(o) == IF "restarted" \in DOMAIN o THEN o.restarted ELSE TRUE
\* ... and a nearest-wins deviation that none of the three shapes explains IS that finding when the resolution restarted and the
\* real graph is exactly what the restart algorithm, as modelled in MavenResolve.tla, returns for this universe
LawName(x, o) == IF x[1] \in StaleNames /\ ~Restarted(o) THEN x[1] \o "-although-the-resolution-never-restarted"
                 ELSE IF x[1] = "nearest-declaration-does-not-win" /\ Restarted(o) /\ HasModel(o) /\ ModelDiff(o) = {}
                      THEN "nearest-wins-deviation-of-the-restart-algorithm-as-modelled" ELSE x[1]
LawsOK(o) == o.ok => \A x \in MavenViolations(o.universe, o.root, o.graph, o.softonly) :
                        CSVWrite("%1$s", <<ToJson([law |-> LawName(x, o), n |-> row, k |-> x[2]])>>, RejFile)
ModelOK(o) == \A l \in ModelDiff(o) : CSVWrite("%1$s", <<ToJson([law |-> l, n |-> row, k |-> 0])>>, RejFile)
Emit == row = 0 \/ (LawsOK(Obs[row]) /\ ModelOK(Obs[row]))
ASSUME CSVWrite("%1$s", <<ToJson([law |-> "stats", n |-> Len(Obs), k |-> 0])>>, RejFile)
=============================================================================
