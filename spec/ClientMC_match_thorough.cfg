CONSTANTS
  Tier = "thorough"
  Mode = "match"
  MaxList = 4
  MaxHist = 0
INIT Init
NEXT Next
INVARIANT Emit
