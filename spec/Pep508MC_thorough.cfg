CONSTANTS AllWs = TRUE
INIT Init
NEXT Next
INVARIANT Emit
