CONSTANTS
  Tier = "thorough"
  SysName = "Default"
INIT Init
NEXT Next
INVARIANT Emit
