------------------------------- MODULE ApiMC -------------------------------
(* Enumerates a family of requirements responses (bundle trees up to depth 3, aliases, scoped *)
(* names containing @ and /, all dependency sections) and emits each with the model the client *)
(* must expose; also model-checks the lock protocol of ApiClient.tla.                          *)
EXTENDS ApiClient, Json, IOUtils, CSV, SequencesExt
OutFile == IOEnv.VERIF_OUT
Dp(name, alias, req) == [name |-> name, alias |-> alias, req |-> req]
NoDeps == [reg |-> <<>>, dev |-> <<>>, opt |-> <<>>, peer |-> <<>>, bundle |-> <<>>]
DepChoices == { NoDeps,
  [NoDeps EXCEPT !.reg = <<Dp("x", "", "^1.0.0")>>],
  [NoDeps EXCEPT !.reg = <<Dp("al", "@s/c", "^1.0.0")>>],
  [NoDeps EXCEPT !.reg = <<Dp("x", "", "^1.0.0"), Dp("y", "", "*")>>, !.dev = <<Dp("d", "", "1.0.0")>>, !.opt = <<Dp("o", "", "^2.0.0")>>, !.peer = <<Dp("p", "", "*")>>],
  [NoDeps EXCEPT !.reg = <<Dp("x", "", "1.0.0"), Dp("al2", "x", "~1.1.0")>>, !.bundle = <<"a">>],
  [NoDeps EXCEPT !.opt = <<Dp("@s/c", "", ">=1.0.0")>>, !.bundle = <<"a", "@s/c">>] }
B(path, name, ver, deps) == [path |-> path, name |-> name, version |-> ver, deps |-> deps]
\* bundle trees: shapes over the names a, b, @s/c, and an aliased directory "al" holding package a
Shapes(d1, d2) == { <<>>,
  <<B(<<"a">>, "a", "1.0.0", d1)>>,
  <<B(<<"a">>, "a", "1.0.0", d1), B(<<"a", "b">>, "b", "2.0.0", d2)>>,
  <<B(<<"a">>, "a", "1.0.0", d1), B(<<"@s/c">>, "@s/c", "1.2.0", d2)>>,
  <<B(<<"a", "b", "@s/c">>, "@s/c", "1.0.0", d2), B(<<"a">>, "a", "1.0.0", d1), B(<<"a", "b">>, "b", "2.0.0", NoDeps)>>,
  <<B(<<"al">>, "a", "1.1.0", d1)>>,
  <<B(<<"a">>, "a", "1.0.0", d1), B(<<"a", "a">>, "a", "2.0.0", d2)>> }
Root == [name |-> "r", version |-> "1.0.0"]
VARIABLES phase, resp
MInit == Init /\ phase = 0 /\ resp = [deps |-> NoDeps, bundled |-> <<>>]
PickResp == phase = 0 /\ store = {} /\ holder = 0 /\ (\A g \in Goroutines : pc[g] = "idle" /\ seen[g] = {}) /\ phase' = 1 /\ \E rd \in DepChoices : \E d1 \in DepChoices : \E d2 \in {NoDeps, [NoDeps EXCEPT !.reg = <<Dp("x", "", "^1.0.0")>>]} :
              \E sh \in Shapes(d1, d2) : resp' = [deps |-> rd, bundled |-> sh]
              /\ UNCHANGED <<pc, holder, store, seen>>
MNext == PickResp \/ (phase = 0 /\ Next /\ UNCHANGED <<phase, resp>>)
\* model law: mangled names are unique per response, every bundled package has exactly one version
UniqueNames == phase = 1 => Cardinality({b.name : b \in BundledModel(Root, resp)}) = Len(resp.bundled)
Emit == phase = 1 => CSVWrite("%1$s", <<ToJson([root |-> Root, resp |-> resp,
           rootreqs |-> SetToSeq(RootReqs(Root, resp)),
           bundled |-> SetToSeq({[name |-> b.name, version |-> b.version, derivedfrom |-> b.derivedfrom, reqs |-> SetToSeq(b.reqs)] : b \in BundledModel(Root, resp)})])>>, OutFile)
=============================================================================
