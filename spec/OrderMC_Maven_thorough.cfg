CONSTANTS
  Tier = "thorough"
  SysName = "Maven"
  DomSource = "enum"
INIT Init
NEXT Next
INVARIANTS Refl Emit
