CONSTANTS
  Tier = "quick"
  Mode = "match"
  MaxList = 3
  MaxHist = 0
INIT Init
NEXT Next
INVARIANT Emit
