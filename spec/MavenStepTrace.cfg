CONSTANTS MaxAttempts = 101 Tier = "quick"
INIT TInit
NEXT TNext
INVARIANTS Terminates DoneStructural DoneAllLawsWithoutRestart
