CONSTANTS
  Roots = {1}
  Resolvers = {1}
  MaxSteps = 0
  MaxBatch = 2
INIT Init
NEXT Next
INVARIANT Emit
