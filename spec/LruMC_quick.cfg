CONSTANTS
  Keys = {1, 2, 3}
  Vals = {1, 2}
  Sizes = {1, 2}
  MaxOps = 4
INIT Init
NEXT Next
INVARIANTS Bounded DistinctKeys Faithful LruMeaning RecencyOrder Emit
PROPERTIES GetNeverChangesContent AddEvictsAtMostOne EvictsOnlyTheTail
CHECK_DEADLOCK FALSE
