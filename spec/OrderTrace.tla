----------------------------- MODULE OrderTrace -----------------------------
(* Trace validation for C01 / C02 / C10: the observation file recorded from the real    *)
(* deps.dev code (one row per version of the TLC-enumerated or seeded domain: the full   *)
(* compare matrix, canonical strings, sort results) is checked against the specification.*)
(* Every law is evaluated row by row (one TLC state per row, spread over the workers);   *)
(* rejected cells are written to RejFile, never stopping at the first one.               *)
EXTENDS Integers, Sequences, FiniteSets, TLC, Json, IOUtils, CSV, Order

DomFile == IOEnv.VERIF_DOM
ObsFile == IOEnv.VERIF_OBS
RejFile == IOEnv.VERIF_REJ
RefFile == IOEnv.VERIF_REF      \* reference matrix written by OrderMC (rows sorted by index; <<>> for no key)

DS == TLCEval(ndJsonDeserialize(DomFile))
Obs == TLCEval(ndJsonDeserialize(ObsFile))
N == Len(DS)
ASSUME Len(Obs) >= N /\ \A i \in 1..N : Obs[i].i = i /\ Obs[i].text = DS[i].text
Parsed == TLCEval({i \in 1..N : Obs[i].ok})
M(i, j) == Obs[i].cmp[j]
SortRows == TLCEval({k \in (N + 1)..Len(Obs) : TRUE})

\* LawParsed: the part of the domain on which the ecosystem's own comparator is a total preorder
\* (everything, except for Maven the shapes on which ComparableVersion itself is not transitive:
\* qualifier introduced by ".", release-equivalent qualifier followed by a number or -SNAPSHOT).
LawParsed == TLCEval({i \in Parsed : DS[i].lawful})
\* rank of i in the OBSERVED relation, on the lawful part and on everything
RankObs == TLCEval([i \in 1..N |-> IF i \in LawParsed THEN Cardinality({j \in LawParsed : M(i, j) = 1}) ELSE -1])
RankAll == TLCEval([i \in 1..N |-> IF i \in Parsed THEN Cardinality({j \in Parsed : M(i, j) = 1}) ELSE -1])
RefRows == TLCEval(ndJsonDeserialize(RefFile))
ASSUME Len(RefRows) = N /\ \A i \in 1..N : RefRows[i].i = i
KeyIdx == TLCEval({i \in 1..N : DS[i].kind # "none"})
R(i, j) == RefRows[i].r[j]             \* reference comparison (defined for i, j \in KeyIdx)
\* C02 domain: both sides accept, and the reference is defined (DESIGN 6.2-6.5)
RefIdx == TLCEval({i \in Parsed : DS[i].ref})
\* the part of the domain on which the ecosystem's own comparator is a total preorder
Lawful(i) == DS[i].ref /\ DS[i].lawful
LawIdx == TLCEval({i \in 1..N : Lawful(i)})
RankRef == TLCEval([i \in 1..N |-> IF i \in LawIdx THEN Cardinality({j \in LawIdx : R(i, j) = 1}) ELSE -1])
\* model law (spec only): the reference relation is a total preorder on the lawful domain
RefLaws == \A i \in LawIdx : \A j \in LawIdx : R(i, j) = -R(j, i) /\ R(i, j) = Sgn(RankRef[i] - RankRef[j])
ASSUME RefLaws

Rej(law, i, j, want, got) == [law |-> law, i |-> i, j |-> j, want |-> want, got |-> got]

\* A cell that no rank function explains lies on at least one non-transitive triple (x <= y <= z, x > z);
\* every such triple contains a rank-inconsistent cell, so enumerating the triples through the
\* flagged cells finds them all.  Triples are enumerated inside the lawful part, where every one of
\* them is a violation.  Outside it (Maven only) rank-inconsistent cells are only counted: they are
\* the recorded finding "not transitive where ComparableVersion is not".
Tri(x, y, z) == [law |-> "nontransitive", i |-> x, j |-> y, want |-> z, got |-> 0]
TriplesAt(i, j) ==
     {Tri(i, j, k) : k \in {k \in LawParsed : M(i, j) <= 0 /\ M(j, k) <= 0 /\ M(i, k) > 0}}
  \cup {Tri(k, i, j) : k \in {k \in LawParsed : M(k, i) <= 0 /\ M(i, j) <= 0 /\ M(k, j) > 0}}
  \cup {Tri(i, k, j) : k \in {k \in LawParsed : M(i, k) <= 0 /\ M(k, j) <= 0 /\ M(i, j) > 0}}

(* ---- C01: the observed relation is a total preorder, history-free, build-blind ---- *)
C01Row(i) ==
  IF i \notin Parsed THEN {} ELSE
     {Rej("refl", i, i, 0, M(i, i)) : x \in {1} \cap {IF M(i, i) # 0 THEN 1 ELSE 0}}
  \cup {Rej("antisym", i, j, -M(j, i), M(i, j)) : j \in {j \in Parsed : M(i, j) # -M(j, i)}}
  \cup (IF i \notin LawParsed THEN {} ELSE
          UNION {TriplesAt(i, j) : j \in {j \in LawParsed : M(i, j) # Sgn(RankObs[i] - RankObs[j])}})
  \cup (LET un == {j \in Parsed : (i \notin LawParsed \/ j \notin LawParsed) /\ M(i, j) # Sgn(RankAll[i] - RankAll[j])}
        IN IF un = {} THEN {} ELSE {Rej("nontransitive-unlawful", i, 0, Cardinality(un), 0)})
  \cup {Rej("history", i, j, M(i, j), Obs[i].cmps[j]) : j \in {j \in Parsed : Obs[i].cmps[j] # M(i, j)}}
  \cup {Rej("history-process", i, j, M(i, j), Obs[i].cmpalt[j]) : j \in {j \in Parsed : Obs[i].cmpalt[j] # M(i, j)}}
  \cup (IF Obs[i].okalt THEN {} ELSE {Rej("history-process", i, i, 1, 0)})
  \cup {Rej("strcmp", i, j, M(i, j), Obs[i].cmpstr[j]) : j \in {j \in Parsed : Obs[i].cmpstr[j] # M(i, j)}}
  \cup {Rej("build", i, j, 0, M(i, j)) : j \in {j \in Parsed : DS[j].base = DS[i].base /\ M(i, j) # 0}}
  \cup {Rej("mutated", i, i, 0, 1) : x \in {1} \cap {IF Obs[i].strsame THEN 0 ELSE 1}}

\* sorting: every shuffle sorts to a non-decreasing sequence with the same sequence of classes
SortBad(k) ==
  LET ps == Obs[k].perms IN
  {Rej("sort-order", k, s, 0, 1) : s \in {s \in 1..Len(ps) : \E t \in 1..(Len(ps[s]) - 1) : M(ps[s][t], ps[s][t + 1]) > 0}}
  \cup {Rej("sort-classes", k, s, 0, 1) : s \in {s \in 1..Len(ps) :
           Len(ps[s]) # Len(ps[1]) \/ \E t \in 1..Len(ps[s]) : RankObs[ps[s][t]] # RankObs[ps[1][t]]}}

(* ---- C02: the observed relation equals the reference order; normal forms are accepted ---- *)
C02Row(i) ==
  (IF DS[i].ref /\ DS[i].normal /\ ~Obs[i].ok THEN {Rej("normal-rejected", i, i, 1, 0)} ELSE {})
  \cup (IF i \notin RefIdx THEN {} ELSE
        {Rej("ref", i, j, R(i, j), M(i, j)) : j \in {j \in RefIdx : M(i, j) # R(i, j)}})

(* ---- C10: canonical string denotes the same version ---- *)
InC10(i) == i \in Parsed /\ (DS[i].sys = "RubyGems" => DS[i].rel)
C10Row(i) ==
  IF ~InC10(i) THEN {} ELSE
  LET o == Obs[i] IN
     (IF ~o.canonok THEN {Rej("canon-unparsable", i, i, 1, 0)} ELSE
        (IF o.canoncmp # 0 THEN {Rej("canon-differs", i, i, 0, o.canoncmp)} ELSE {})
        \cup (IF o.canon2 # o.canon THEN {Rej("canon-not-idempotent", i, i, 0, 1)} ELSE {}))
  \cup (IF ~o.canonbok THEN {Rej("canonb-unparsable", i, i, 1, 0)} ELSE
        (IF o.canonbcmp # 0 THEN {Rej("canonb-differs", i, i, 0, o.canonbcmp)} ELSE {})
        \cup (IF o.canonb2 # o.canonb THEN {Rej("canonb-not-idempotent", i, i, 0, 1)} ELSE {}))
  \cup {Rej("canon-collision", i, j, 0, M(i, j)) : j \in {j \in Parsed : InC10(j) /\ Obs[j].canon = o.canon /\ M(i, j) # 0}}
  \cup {Rej("canonb-collision", i, j, 0, M(i, j)) : j \in {j \in Parsed : InC10(j) /\ Obs[j].canonb = o.canonb /\ M(i, j) # 0}}
  \cup (IF DS[i].sys = "PyPI" /\ (~o.pycanonok \/ o.pycanoncmp # 0) THEN {Rej("pycanon", i, i, 0, 1)} ELSE {})

VARIABLE row
Init == row = 0
Next == row = 0 /\ row' \in 1..Len(Obs)
RowRej(i) == IF i <= N THEN C01Row(i) \cup C02Row(i) \cup C10Row(i) ELSE SortBad(i)
Emit == row = 0 \/ \A r \in RowRej(row) : CSVWrite("%1$s", <<ToJson(r)>>, RejFile)
\* vacuity guards (reported in evidence): how many reference pairs, how many canon collisions
Stats == [n |-> N, parsed |-> Cardinality(Parsed), ref |-> Cardinality(RefIdx),
          classes |-> Cardinality({RankAll[i] : i \in Parsed}), lawful |-> Cardinality(LawParsed),
          collisions |-> Cardinality({i \in Parsed : \E j \in Parsed : j # i /\ Obs[j].canon = Obs[i].canon})]
ASSUME CSVWrite("%1$s", <<ToJson([law |-> "stats", i |-> 0, j |-> 0, want |-> 0, got |-> 0, stats |-> Stats])>>, RejFile)
=============================================================================
