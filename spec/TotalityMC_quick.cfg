CONSTANTS MaxLen = 3
INIT MInit
NEXT MNext
INVARIANTS MonitorOK Emit
