CONSTANTS MaxLen = 3 MaxLenK = 2 MaxLines = 3 MaxDepth = 4
INIT MInit
NEXT MNext
INVARIANTS MonitorOK Emit
