------------------------------ MODULE AttrTrace ------------------------------
(* Trace validation for C19.  Each record is one history executed on real dep.Type and     *)
(* version.AttrSet values (three slots per family), with the full observable content of     *)
(* every slot, the Compare matrix, Equal, and the text round trip logged after every        *)
(* operation.  The history is consumed as AttrSets actions; the logged content of EVERY     *)
(* slot must equal the model slot (so a clone that shares storage with its original is      *)
(* caught when either side is changed later).  A final "order" record carries a pool of     *)
(* reached values with their Compare matrix for the total-order laws.                        *)
EXTENDS AttrSets, Json, IOUtils, CSV
Obs == TLCEval(ndJsonDeserialize(IOEnv.VERIF_OBS))
RejFile == IOEnv.VERIF_REJ
Rej(law, n, k, fam) == [law |-> law, n |-> n, k |-> k, fam |-> fam]
Sgn(x) == IF x < 0 THEN -1 ELSE IF x > 0 THEN 1 ELSE 0
\* logged slot content -> model value
FromLog(c) == [flags |-> {c.flags[i] : i \in 1..Len(c.flags)},
               kv |-> [k \in {c.kv[i].k : i \in 1..Len(c.kv)} |-> (CHOOSE p \in {c.kv[i] : i \in 1..Len(c.kv)} : p.k = k).v]]
FamRej(n, k, fam, f, st) ==       \* f : logged family observation after step k
     {Rej("content-differs-from-model", n, k, fam) : i \in {i \in Slots : FromLog(f.slots[i]) # st[i]}}
  \cup {Rej("regular-flag-wrong", n, k, fam) : i \in {i \in Slots : f.slots[i].regular # Regular(st[i])}}
  \cup {Rej("equal-iff-same-content", n, k, fam) : p \in {p \in Slots \X Slots : (f.cmp[p[1]][p[2]] = 0) # (st[p[1]] = st[p[2]])}}
  \cup {Rej("equal-disagrees-with-compare", n, k, fam) : p \in {p \in Slots \X Slots : f.eq[p[1]][p[2]] # (f.cmp[p[1]][p[2]] = 0)}}
  \cup {Rej("compare-not-antisymmetric", n, k, fam) : p \in {p \in Slots \X Slots : Sgn(f.cmp[p[1]][p[2]]) # -Sgn(f.cmp[p[2]][p[1]])}}
  \cup {Rej("text-roundtrip", n, k, fam) : i \in {i \in Slots : ~f.slots[i].rtok}}
StepRej(n, k, st) == FamRej(n, k, "dep", Obs[n].steps[k].dep, st) \cup FamRej(n, k, "version", Obs[n].steps[k].ver, st)
\* total-order laws on a pool of reached values: rank consistency (= transitivity + congruence)
OrderRej(n) ==
  LET o == Obs[n] m == Len(o.pool)
      R == [i \in 1..m |-> Cardinality({j \in 1..m : o.cmp[i][j] > 0})] IN
     {Rej("order-not-total-preorder", n, i, o.fam) : i \in {i \in 1..m : \E j \in 1..m : Sgn(o.cmp[i][j]) # Sgn(R[i] - R[j])}}
  \cup {Rej("order-equal-iff-same-content", n, i, o.fam) : i \in {i \in 1..m : \E j \in 1..m : (o.cmp[i][j] = 0) # (FromLog(o.pool[i]) = FromLog(o.pool[j]))}}

VARIABLES h, l
Init2 == h = 0 /\ l = 0 /\ slots = [i \in Slots |-> Empty] /\ hist = <<>>
Start == h = 0 /\ h' \in 1..Len(Obs) /\ l' = 0 /\ UNCHANGED <<slots, hist>>
Step == h # 0 /\ Obs[h].kind = "hist" /\ l < Len(Obs[h].steps)
        /\ slots' = Apply(slots, Obs[h].steps[l + 1].op) /\ l' = l + 1 /\ UNCHANGED <<h, hist>>
Next2 == Start \/ Step
Emit == \/ h = 0
        \/ (Obs[h].kind = "order" /\ \A r \in OrderRej(h) : CSVWrite("%1$s", <<ToJson(r)>>, RejFile))
        \/ (Obs[h].kind = "hist" /\ (l = 0 \/ \A r \in StepRej(h, l, slots) : CSVWrite("%1$s", <<ToJson(r)>>, RejFile)))
ASSUME CSVWrite("%1$s", <<ToJson([law |-> "stats", n |-> Len(Obs), k |-> 0, fam |-> ""])>>, RejFile)
=============================================================================
