CONSTANTS
  Tier = "thorough"
  SysName = "Composer"
  DomSource = "enum"
INIT Init
NEXT Next
INVARIANTS Refl Emit
