------------------------------- MODULE Ranges -------------------------------
(* Reference semantics of version REQUIREMENTS (C03), written from the ecosystems' own  *)
(* definitions: node-semver's range desugaring, the Rust semver crate's eval.rs,         *)
(* packaging's SpecifierSet (for final-release candidates) and Maven's VersionRange.     *)
(* Requirements are abstract syntax trees with explicit printers; Sat(req, v) is the     *)
(* reference answer.  Numerals are small naturals (successor matters for ranges).        *)
EXTENDS Integers, Sequences, FiniteSets, TLC, Order

X == -1                                     \* wildcard component of a partial version
IdNum(n) == [k |-> "n", n |-> n, r |-> 0]
IdStr(r) == [k |-> "s", n |-> 0, r |-> r]
\* prerelease identifier texts: numeric n -> ToString(n); alphanumeric ranks 1..3
StrText(r) == CASE r = 1 -> "alpha" [] r = 2 -> "beta" [] r = 3 -> "rc"
IdText(id) == IF id.k = "n" THEN ToString(id.n) ELSE StrText(id.r)
RECURSIVE JoinS(_, _)
JoinS(s, sep) == IF s = <<>> THEN "" ELSE IF Len(s) = 1 THEN s[1] ELSE s[1] \o sep \o JoinS(Tail(s), sep)
PreText(pre) == IF pre = <<>> THEN "" ELSE "-" \o JoinS([i \in 1..Len(pre) |-> IdText(pre[i])], ".")
Zero == <<IdNum(0)>>                        \* the prerelease "-0"

(* ------------------------------------------------------------- versions *)
Ver(a, b, c, pre) == [n |-> <<a, b, c>>, pre |-> pre]
VerText(v) == ToString(v.n[1]) \o "." \o ToString(v.n[2]) \o "." \o ToString(v.n[3]) \o PreText(v.pre)
VCmp(v, w) == SemVerCmp([nums |-> v.n, pre |-> v.pre], [nums |-> w.n, pre |-> w.pre])
PreChoices == {<<>>, <<IdNum(0)>>, <<IdStr(1)>>, <<IdStr(1), IdNum(1)>>, <<IdStr(3)>>}
\* the complete candidate universe: every boundary of every catalogue requirement lies in it
Universe == {Ver(a, b, c, p) : a \in 0..3, b \in 0..3, c \in 0..3, p \in PreChoices}

(* ------------------------------------------------------------------ npm *)
\* partial: [n |-> Seq(Nat \cup {X}) of length 0..3, pre |-> Seq(ident), xs |-> "x" | "*" | "X"]
\* comparator: [op |-> "" | "=" | ">" | ">=" | "<" | "<=" | "^" | "~" | "~>", p |-> partial]
\*          or [op |-> "-", p |-> partial, q |-> partial]     (hyphen range)
\* requirement: sequence (||) of sequences (AND) of comparators
G(p, i) == IF i <= Len(p.n) THEN p.n[i] ELSE X
PartText(p) ==
  IF p.n = <<>> THEN p.xs
  ELSE JoinS([i \in 1..Len(p.n) |-> IF p.n[i] = X THEN p.xs ELSE ToString(p.n[i])], ".") \o PreText(p.pre)
NpmCompText(c) == IF c.op = "-" THEN PartText(c.p) \o " - " \o PartText(c.q) ELSE c.op \o PartText(c.p)
NpmAndText(cs) == JoinS([i \in 1..Len(cs) |-> NpmCompText(cs[i])], " ")
NpmText(r) == JoinS([i \in 1..Len(r) |-> NpmAndText(r[i])], " || ")

Prim(op, a, b, c, pre) == [op |-> op, v |-> Ver(a, b, c, pre)]
AnyC == {[op |-> "any", v |-> Ver(0, 0, 0, <<>>)]}
NoneC == {[op |-> "none", v |-> Ver(0, 0, 0, <<>>)]}
Caret(p) == LET M == G(p, 1) m == G(p, 2) q == G(p, 3) IN
  IF M = X THEN AnyC
  ELSE IF m = X THEN {Prim(">=", M, 0, 0, <<>>), Prim("<", M + 1, 0, 0, Zero)}
  ELSE IF q = X THEN (IF M = 0 THEN {Prim(">=", M, m, 0, <<>>), Prim("<", M, m + 1, 0, Zero)}
                               ELSE {Prim(">=", M, m, 0, <<>>), Prim("<", M + 1, 0, 0, Zero)})
  ELSE IF M = 0 THEN (IF m = 0 THEN {Prim(">=", M, m, q, p.pre), Prim("<", M, m, q + 1, Zero)}
                               ELSE {Prim(">=", M, m, q, p.pre), Prim("<", M, m + 1, 0, Zero)})
  ELSE {Prim(">=", M, m, q, p.pre), Prim("<", M + 1, 0, 0, Zero)}
Tilde(p) == LET M == G(p, 1) m == G(p, 2) q == G(p, 3) IN
  IF M = X THEN AnyC
  ELSE IF m = X THEN {Prim(">=", M, 0, 0, <<>>), Prim("<", M + 1, 0, 0, Zero)}
  ELSE IF q = X THEN {Prim(">=", M, m, 0, <<>>), Prim("<", M, m + 1, 0, Zero)}
  ELSE {Prim(">=", M, m, q, p.pre), Prim("<", M, m + 1, 0, Zero)}
XRange(op0, p) == LET M == G(p, 1) m == G(p, 2) q == G(p, 3)
                      xM == M = X  xm == xM \/ m = X  xp == xm \/ q = X
                      op == IF op0 = "=" /\ xp THEN "" ELSE op0 IN
  IF xM THEN (IF op \in {">", "<"} THEN NoneC ELSE AnyC)
  ELSE IF op # "" /\ xp THEN
     LET m1 == IF xm THEN 0 ELSE m IN
     IF op = ">" THEN (IF xm THEN {Prim(">=", M + 1, 0, 0, <<>>)} ELSE {Prim(">=", M, m1 + 1, 0, <<>>)})
     ELSE IF op = "<=" THEN (IF xm THEN {Prim("<", M + 1, 0, 0, Zero)} ELSE {Prim("<", M, m1 + 1, 0, Zero)})
     ELSE IF op = "<" THEN {Prim("<", M, m1, 0, Zero)}
     ELSE {Prim(op, M, m1, 0, <<>>)}
  ELSE IF xm THEN {Prim(">=", M, 0, 0, <<>>), Prim("<", M + 1, 0, 0, Zero)}
  ELSE IF xp THEN {Prim(">=", M, m, 0, <<>>), Prim("<", M, m + 1, 0, Zero)}
  ELSE {Prim(IF op = "" THEN "=" ELSE op, M, m, q, p.pre)}
Hyphen(a, b) ==
  LET lo == IF G(a, 1) = X THEN {} ELSE IF G(a, 2) = X THEN {Prim(">=", G(a, 1), 0, 0, <<>>)}
            ELSE IF G(a, 3) = X THEN {Prim(">=", G(a, 1), G(a, 2), 0, <<>>)}
            ELSE {Prim(">=", G(a, 1), G(a, 2), G(a, 3), a.pre)}
      hi == IF G(b, 1) = X THEN {} ELSE IF G(b, 2) = X THEN {Prim("<", G(b, 1) + 1, 0, 0, Zero)}
            ELSE IF G(b, 3) = X THEN {Prim("<", G(b, 1), G(b, 2) + 1, 0, Zero)}
            ELSE {Prim("<=", G(b, 1), G(b, 2), G(b, 3), b.pre)}
  IN IF lo \cup hi = {} THEN AnyC ELSE lo \cup hi
\* node-semver rewrites the comparator >=0.0.0 (no prerelease) to "" (any)
Simplify(pcs) == {IF pc.op = ">=" /\ pc.v = Ver(0, 0, 0, <<>>) THEN CHOOSE a \in AnyC : TRUE ELSE pc : pc \in pcs}
Desugar(c) == Simplify(IF c.op = "-" THEN Hyphen(c.p, c.q) ELSE IF c.op = "^" THEN Caret(c.p)
                       ELSE IF c.op \in {"~", "~>"} THEN Tilde(c.p) ELSE XRange(c.op, c.p))
Test(pc, v) == CASE pc.op = "any" -> TRUE [] pc.op = "none" -> FALSE
   [] pc.op = "=" -> VCmp(v, pc.v) = 0 [] pc.op = ">=" -> VCmp(v, pc.v) >= 0 [] pc.op = ">" -> VCmp(v, pc.v) > 0
   [] pc.op = "<" -> VCmp(v, pc.v) < 0 [] pc.op = "<=" -> VCmp(v, pc.v) <= 0
NpmPrims(cs) == UNION {Desugar(cs[i]) : i \in 1..Len(cs)}
SatPrims(prims, v) ==
   /\ \A pc \in prims : Test(pc, v)
   /\ (v.pre # <<>> => \E pc \in prims : pc.op \notin {"any", "none"} /\ pc.v.pre # <<>> /\ pc.v.n = v.n)
\* an AND-list that is a lone "*" makes the whole || range "*" (node-semver Range constructor)
NpmIsStar(cs) == LET ps == NpmPrims(cs) IN ps # {} /\ \A pc \in ps : pc.op = "any"
NpmSat(r, v) ==
  IF \E i \in 1..Len(r) : NpmIsStar(r[i]) THEN v.pre = <<>>
  ELSE \E i \in 1..Len(r) : SatPrims(NpmPrims(r[i]), v)

(* ---------------------------------------------------------------- Cargo *)
\* comparator: [op |-> "" | "=" | ">" | ">=" | "<" | "<=" | "~" | "^" | "*", p |-> partial]
\* ("" is the default caret; "*" the wildcard forms *, 1.*, 1.2.*); requirement: Seq (comma = AND)
CargoCompText(c) == c.op \o PartText(c.p)
CargoText(r) == JoinS([i \in 1..Len(r) |-> IF r[i].op = "*" THEN PartText(r[i].p) ELSE CargoCompText(r[i])], ", ")
HasMinor(p) == Len(p.n) >= 2 /\ p.n[2] # X
HasPatch(p) == Len(p.n) >= 3 /\ p.n[3] # X
PreCmp(a, b) == IF a = <<>> /\ b = <<>> THEN 0 ELSE IF a = <<>> THEN 1 ELSE IF b = <<>> THEN -1 ELSE CmpPreFrom(a, b, 1)
CExact(p, v) == /\ G(p, 1) = X \/ v.n[1] = p.n[1]
                /\ (HasMinor(p) => v.n[2] = p.n[2]) /\ (HasPatch(p) => v.n[3] = p.n[3]) /\ v.pre = p.pre
CGreater(p, v) ==
  IF v.n[1] # p.n[1] THEN v.n[1] > p.n[1]
  ELSE IF ~HasMinor(p) THEN FALSE ELSE IF v.n[2] # p.n[2] THEN v.n[2] > p.n[2]
  ELSE IF ~HasPatch(p) THEN FALSE ELSE IF v.n[3] # p.n[3] THEN v.n[3] > p.n[3]
  ELSE PreCmp(v.pre, p.pre) > 0
CLess(p, v) ==
  IF v.n[1] # p.n[1] THEN v.n[1] < p.n[1]
  ELSE IF ~HasMinor(p) THEN FALSE ELSE IF v.n[2] # p.n[2] THEN v.n[2] < p.n[2]
  ELSE IF ~HasPatch(p) THEN FALSE ELSE IF v.n[3] # p.n[3] THEN v.n[3] < p.n[3]
  ELSE PreCmp(v.pre, p.pre) < 0
CTilde(p, v) ==
  IF v.n[1] # p.n[1] THEN FALSE
  ELSE IF HasMinor(p) /\ v.n[2] # p.n[2] THEN FALSE
  ELSE IF HasPatch(p) /\ v.n[3] # p.n[3] THEN v.n[3] > p.n[3]
  ELSE PreCmp(v.pre, p.pre) >= 0
CCaret(p, v) ==
  IF v.n[1] # p.n[1] THEN FALSE
  ELSE IF ~HasMinor(p) THEN TRUE
  ELSE IF ~HasPatch(p) THEN (IF p.n[1] > 0 THEN v.n[2] >= p.n[2] ELSE v.n[2] = p.n[2])
  ELSE IF p.n[1] > 0 THEN (IF v.n[2] # p.n[2] THEN v.n[2] > p.n[2]
                           ELSE IF v.n[3] # p.n[3] THEN v.n[3] > p.n[3] ELSE PreCmp(v.pre, p.pre) >= 0)
  ELSE IF p.n[2] > 0 THEN (IF v.n[2] # p.n[2] THEN FALSE
                           ELSE IF v.n[3] # p.n[3] THEN v.n[3] > p.n[3] ELSE PreCmp(v.pre, p.pre) >= 0)
  ELSE IF v.n[2] # p.n[2] \/ v.n[3] # p.n[3] THEN FALSE ELSE PreCmp(v.pre, p.pre) >= 0
CMatch(c, v) ==
  CASE c.op \in {"=", "*"} -> CExact(c.p, v)
    [] c.op = ">" -> CGreater(c.p, v)
    [] c.op = ">=" -> CExact(c.p, v) \/ CGreater(c.p, v)
    [] c.op = "<" -> CLess(c.p, v)
    [] c.op = "<=" -> CExact(c.p, v) \/ CLess(c.p, v)
    [] c.op = "~" -> CTilde(c.p, v)
    [] c.op \in {"^", ""} -> CCaret(c.p, v)
CPreCompat(c, v) == /\ G(c.p, 1) = v.n[1] /\ HasMinor(c.p) /\ c.p.n[2] = v.n[2]
                    /\ HasPatch(c.p) /\ c.p.n[3] = v.n[3] /\ c.p.pre # <<>>
CargoSat(r, v) == /\ \A i \in 1..Len(r) : CMatch(r[i], v)
                  /\ (v.pre # <<>> => \E i \in 1..Len(r) : CPreCompat(r[i], v))

(* ----------------------------------------------------------------- PyPI *)
\* clause: [op |-> "==" | "!=" | "<=" | ">=" | "<" | ">" | "~=", rel |-> Seq(Nat), star |-> BOOLEAN,
\*          pre |-> <<>> | <<phase, n>>, post |-> -1 | n, dev |-> -1 | n]
\* candidates are FINAL releases (property domain): [rel |-> <<a, b, c>>]
PyVerText(c) == JoinS([i \in 1..Len(c.rel) |-> ToString(c.rel[i])], ".")
  \o (IF c.pre = <<>> THEN "" ELSE (CASE c.pre[1] = 1 -> "a" [] c.pre[1] = 2 -> "b" [] c.pre[1] = 3 -> "rc") \o ToString(c.pre[2]))
  \o (IF c.post = -1 THEN "" ELSE ".post" \o ToString(c.post))
  \o (IF c.dev = -1 THEN "" ELSE ".dev" \o ToString(c.dev))
  \o (IF c.star THEN ".*" ELSE "")
PyClauseText(c) == c.op \o PyVerText(c)
PySpecText(r) == JoinS([i \in 1..Len(r) |-> PyClauseText(r[i])], ",")
PyKey(c) == [epoch |-> 0, rel |-> c.rel, pre |-> c.pre, post |-> c.post, dev |-> c.dev, local |-> <<>>]
PyCand(v) == [epoch |-> 0, rel |-> v.rel, pre |-> <<>>, post |-> -1, dev |-> -1, local |-> <<>>]
PadGet(s, i) == IF i <= Len(s) THEN s[i] ELSE 0
PrefixMatch(crel, prel) == \A i \in 1..Len(prel) : PadGet(crel, i) = prel[i]
PyClauseSat(c, v) ==
  LET cmp == Pep440Cmp(PyCand(v), PyKey(c)) IN
  CASE c.op = "==" -> (IF c.star THEN PrefixMatch(v.rel, c.rel) ELSE cmp = 0)
    [] c.op = "!=" -> (IF c.star THEN ~PrefixMatch(v.rel, c.rel) ELSE cmp # 0)
    [] c.op = "<=" -> cmp <= 0
    [] c.op = ">=" -> cmp >= 0
    [] c.op = "<" -> cmp < 0
    [] c.op = ">" -> cmp > 0
    [] c.op = "~=" -> cmp >= 0 /\ PrefixMatch(v.rel, SubSeq(c.rel, 1, Len(c.rel) - 1))
PySat(r, v) == \A i \in 1..Len(r) : PyClauseSat(r[i], v)

(* ---------------------------------------------------------------- Maven *)
\* VersionRange.  Versions are indices into a pool of Maven ASTs whose ComparableVersion item lists
\* are pre-computed (Order!MavenItems).  restriction: [lo, loIncl, hi, hiIncl] with lo / hi = 0 for
\* an absent bound; requirement: [soft |-> TRUE, v] (a bare version: accepts everything) or
\* [soft |-> FALSE, rs |-> Seq(restriction)] (union).
MvnRestrText(r, T(_)) ==
  IF r.lo # 0 /\ r.lo = r.hi /\ r.loIncl /\ r.hiIncl /\ r.single THEN "[" \o T(r.lo) \o "]"
  ELSE (IF r.loIncl THEN "[" ELSE "(") \o (IF r.lo = 0 THEN "" ELSE T(r.lo)) \o ","
       \o (IF r.hi = 0 THEN "" ELSE T(r.hi)) \o (IF r.hiIncl THEN "]" ELSE ")")
MvnText(q, T(_)) == IF q.soft THEN T(q.v) ELSE JoinS([i \in 1..Len(q.rs) |-> MvnRestrText(q.rs[i], T)], ",")
MvnRestrSat(r, v, C(_, _)) ==
  /\ (r.lo # 0 => LET c == C(r.lo, v) IN c < 0 \/ (c = 0 /\ r.loIncl))
  /\ (r.hi # 0 => LET c == C(r.hi, v) IN c > 0 \/ (c = 0 /\ r.hiIncl))
MvnSat(q, v, C(_, _)) == q.soft \/ \E i \in 1..Len(q.rs) : MvnRestrSat(q.rs[i], v, C)
=============================================================================
