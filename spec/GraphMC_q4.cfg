CONSTANTS
  N = 4
  MaxEdges = 2
  WithErr = FALSE
  Variants = {0}
INIT Init
NEXT Next
INVARIANTS OrbitIsIso Emit
