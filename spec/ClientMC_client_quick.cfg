CONSTANTS
  Tier = "quick"
  Mode = "client"
  MaxList = 0
  MaxHist = 2
INIT Init
NEXT Next
INVARIANTS Emit KeysOnce DepsKnown VersKnown LastWins
