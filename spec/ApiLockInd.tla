----------------------------- MODULE ApiLockInd -----------------------------
(* The lock protocol of the API client's bundle map (the design-level part of ApiClient.tla), typed  *)
(* for Apalache, with an inductive invariant: unbounded-length safety for the given constants.        *)
(*   apalache-mc check --init=Init    --inv=IndInv --length=0 ApiLockInd.tla      (Init => IndInv)      *)
(*   apalache-mc check --init=IndInit --inv=IndInv --length=1 ApiLockInd.tla      (IndInv /\ Next => IndInv') *)
(*   apalache-mc check --init=IndInit --inv=Safety --length=0 ApiLockInd.tla      (IndInv => Safety)    *)
EXTENDS Integers, FiniteSets
Goroutines == {1, 2, 3}
Names == {"n1", "n2"}
VARIABLES
  \* @type: Int -> Str;
  pc,
  \* @type: Int;
  holder,
  \* @type: Set(Str);
  store,
  \* @type: Int -> Set(Str);
  seen
Init == pc = [g \in Goroutines |-> "idle"] /\ holder = 0 /\ store = {} /\ seen = [g \in Goroutines |-> {}]
Fetch(g) == pc[g] = "idle" /\ pc' = [pc EXCEPT ![g] = "fetched"] /\ UNCHANGED <<holder, store, seen>>
Lock(g) == pc[g] = "fetched" /\ holder = 0 /\ holder' = g /\ pc' = [pc EXCEPT ![g] = "locked"] /\ UNCHANGED <<store, seen>>
StoreAll(g) == pc[g] = "locked" /\ holder = g /\ store' = store \cup Names /\ holder' = 0 /\ pc' = [pc EXCEPT ![g] = "idle"] /\ UNCHANGED seen
Read(g) == pc[g] = "idle" /\ holder = 0 /\ seen' = [seen EXCEPT ![g] = @ \cup store] /\ UNCHANGED <<pc, holder, store>>
Next == \E g \in Goroutines : Fetch(g) \/ Lock(g) \/ StoreAll(g) \/ Read(g)
MutualExclusion == Cardinality({g \in Goroutines : pc[g] = "locked"}) <= 1
AllOrNothing == \A g \in Goroutines : seen[g] = {} \/ seen[g] = Names
Safety == MutualExclusion /\ AllOrNothing
TypeOK == /\ pc \in [Goroutines -> {"idle", "fetched", "locked"}] /\ holder \in Goroutines \cup {0}
          /\ store \in SUBSET Names /\ seen \in [Goroutines -> SUBSET Names]
\* the inductive invariant: the holder is exactly the goroutine in its critical section; the map is empty or complete
IndInv == /\ TypeOK
          /\ \A g \in Goroutines : pc[g] = "locked" <=> holder = g
          /\ (store = {} \/ store = Names)
          /\ AllOrNothing
IndInit == IndInv
=============================================================================
