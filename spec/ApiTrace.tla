------------------------------ MODULE ApiTrace ------------------------------
(* Trace validation for C18: each record holds a response, what the real APIClient exposed  *)
(* through its four calls, and the digests of resolving through it and through an in-memory  *)
(* client loaded with the model's universe (sequentially and from 16 goroutines).            *)
EXTENDS ApiClient, Json, IOUtils, CSV
Obs == TLCEval(ndJsonDeserialize(IOEnv.VERIF_OBS))
RejFile == IOEnv.VERIF_REJ
ReqSet(s) == {[name |-> s[i].name, req |-> s[i].req, kind |-> s[i].kind, knownas |-> s[i].knownas] : i \in 1..Len(s)}
Find(bs, n) == {bs[i] : i \in {i \in 1..Len(bs) : bs[i].name = n}}
RowRej(o) ==
  LET want == BundledModel(o.root, o.resp) got == o.bundled IN
     (IF ReqSet(o.rootreqs) # RootReqs(o.root, o.resp) THEN {"root-requirements-differ"} ELSE {})
  \cup UNION {
      LET gs == Find(got, w.name) IN
      IF gs = {} THEN {"bundled-package-missing"}
      ELSE LET g == CHOOSE g \in gs : TRUE IN
        (IF ~g.vfound \/ g.vversion # w.version THEN {"bundled-version-lookup-wrong"} ELSE {})
        \cup (IF g.derivedfrom # w.derivedfrom THEN {"derived-from-wrong"} ELSE {})
        \cup (IF g.versions # <<w.version>> THEN {"bundled-package-must-have-exactly-one-version"} ELSE {})
        \cup (IF g.matching # <<w.version>> THEN {"parent-requirement-does-not-match-exactly-that-version"} ELSE {})
        \cup (IF g.matchingother # <<>> THEN {"another-version-requirement-matches"} ELSE {})
        \cup (IF ~g.rfound \/ ReqSet(g.reqs) # w.reqs THEN {"bundled-requirements-differ"} ELSE {})
      : w \in want}
  \cup (IF o.apidigest # o.localdigest THEN {"graph-through-api-client-differs-from-in-memory-client"} ELSE {})
  \cup (IF \E i \in 1..Len(o.concurrent) : o.concurrent[i] # o.localdigest THEN {"concurrent-resolution-differs"} ELSE {})
  \cup (IF o.race # "" THEN {"data-race-reported"} ELSE {})
VARIABLE row
TInit == row = 0 /\ Init
TNext == row = 0 /\ row' \in 1..Len(Obs) /\ UNCHANGED <<pc, holder, store, seen>>
Emit == row = 0 \/ \A law \in RowRej(Obs[row]) : CSVWrite("%1$s", <<ToJson([law |-> law, n |-> row])>>, RejFile)
ASSUME CSVWrite("%1$s", <<ToJson([law |-> "stats", n |-> Len(Obs)])>>, RejFile)
=============================================================================
