----------------------------- MODULE RangesTrace -----------------------------
(* Trace validation for C03 / C09 / C11.  The observation file holds, per requirement of  *)
(* the TLC-enumerated catalogue, the candidates the real code matches (strict and          *)
(* prerelease-inclusive), the printed set and its re-parse; and per ordered pair of the    *)
(* pair set, the union and intersection computed by the real code.  Sets of candidate      *)
(* indices make the laws set equations.                                                    *)
EXTENDS Integers, Sequences, FiniteSets, TLC, Json, IOUtils, CSV

Uni == TLCEval(ndJsonDeserialize(IOEnv.VERIF_UNI))
Cat == TLCEval(ndJsonDeserialize(IOEnv.VERIF_CAT))      \* sorted by id
Obs == TLCEval(ndJsonDeserialize(IOEnv.VERIF_OBS))
RejFile == IOEnv.VERIF_REJ
NC == Len(Cat)
ASSUME Len(Obs) >= NC /\ \A k \in 1..NC : Cat[k].id = k /\ Obs[k].kind = "req" /\ Obs[k].id = k /\ Obs[k].text = Cat[k].text
S(seq) == {seq[i] : i \in 1..Len(seq)}
AllV == 1..Len(Uni)
Rel == TLCEval({i \in AllV : Uni[i].rel})       \* release candidates (for Maven: the candidates >= 0)
Rej(law, a, b, detail) == [law |-> law, a |-> a, b |-> b, detail |-> detail]
Diff(x, y) == (x \ y) \cup (y \ x)
SomeOf(x) == IF x = {} THEN 0 ELSE CHOOSE e \in x : TRUE

(* ---- C03: the real code matches exactly the candidates the reference model accepts ---- *)
\* InC03(k): candidates are restricted to the property's domain by the model run (expect only
\* ranges over in-domain candidates; for Maven the candidates >= 0)
DomCands == IF \E k \in 1..NC : Cat[k].ref THEN (IF \A i \in AllV : Uni[i].rel THEN AllV ELSE IF IOEnv.VERIF_SYS = "Maven" THEN Rel ELSE AllV) ELSE AllV
C03Row(k) ==
  IF ~Cat[k].ref THEN {} ELSE
  LET e == S(Cat[k].expect) o == Obs[k] IN
  IF ~o.ok THEN (IF e # {} THEN {Rej("rejected", k, 0, 0)} ELSE {})
  ELSE {Rej(IF v \in e THEN "should-match" ELSE "should-not-match", k, v, 0) : v \in Diff(e, S(o.m) \cap DomCands)}
       \cup {Rej("match-string-differs", k, v, 0) : v \in Diff(S(o.m), S(o.mstr))}

(* ---- C11: printed set re-parses to the same text and the same prerelease-inclusive matches ---- *)
C11Row(k) ==
  LET o == Obs[k] IN
  IF ~o.ok THEN {} ELSE
  IF ~o.rtok THEN {Rej("set-text-unparsable", k, 0, 0)}
  ELSE (IF o.set2 # o.set THEN {Rej("set-text-changes", k, 0, 0)} ELSE {})
       \cup {Rej("roundtrip-match-differs", k, v, 0) : v \in Diff(S(o.p), S(o.p2))}

(* ---- C09: union / intersection laws on the observed membership sets ---- *)
PairIdx == TLCEval({n \in (NC + 1)..Len(Obs) : Obs[n].kind = "pair"})
\* the mirrored pair (b, a), for operand-order independence
Mirror(n) == CHOOSE m \in PairIdx : Obs[m].a = Obs[n].b /\ Obs[m].b = Obs[n].a
C09Row(n) ==
  LET o == Obs[n] A == Obs[o.a] B == Obs[o.b] IN
  (IF ~o.uok THEN {Rej("union-error", o.a, o.b, 0)} ELSE
     {Rej("union-membership", o.a, o.b, v) : v \in Diff(S(o.mu), S(A.m) \cup S(B.m))}
     \cup (IF o.uempty /\ (S(o.mu) # {} \/ S(o.pu) # {}) THEN {Rej("empty-union-matches", o.a, o.b, SomeOf(S(o.mu) \cup S(o.pu)))} ELSE {})
     \cup {Rej("union-order", o.a, o.b, v) : v \in Diff(S(o.mu), S(Obs[Mirror(n)].mu)) \cup Diff(S(o.pu), S(Obs[Mirror(n)].pu))})
  \cup (IF ~o.iok THEN {Rej("intersect-error", o.a, o.b, 0)} ELSE
     {Rej("intersect-membership-release", o.a, o.b, v) : v \in Diff(S(o.mi) \cap Rel, S(A.m) \cap S(B.m) \cap Rel)}
     \cup {Rej("intersect-membership-prerelease-inclusive", o.a, o.b, v) : v \in Diff(S(o.pi), S(A.p) \cap S(B.p))}
     \cup (IF o.iempty /\ (S(o.mi) # {} \/ S(o.pi) # {}) THEN {Rej("empty-intersection-matches", o.a, o.b, SomeOf(S(o.mi) \cup S(o.pi)))} ELSE {})
     \cup {Rej("intersect-order", o.a, o.b, v) : v \in Diff(S(o.mi), S(Obs[Mirror(n)].mi)) \cup Diff(S(o.pi), S(Obs[Mirror(n)].pi))})
  \cup (IF ~o.intact THEN {Rej("operand-modified", o.a, o.b, 0)} ELSE {})
\* a set reported as empty matches nothing (single requirements)
EmptyRow(k) == LET o == Obs[k] IN IF o.ok /\ o.empty /\ (S(o.m) # {} \/ S(o.p) # {}) THEN {Rej("empty-set-matches", k, 0, SomeOf(S(o.m) \cup S(o.p)))} ELSE {}

VARIABLE row
Init == row = 0
Next == row = 0 /\ row' \in 1..Len(Obs)
RowRej(n) == IF n <= NC THEN C03Row(n) \cup C11Row(n) \cup EmptyRow(n) ELSE C09Row(n)
Emit == row = 0 \/ \A r \in RowRej(row) : CSVWrite("%1$s", <<ToJson(r)>>, RejFile)
Stats == [reqs |-> NC, parsed |-> Cardinality({k \in 1..NC : Obs[k].ok}), ref |-> Cardinality({k \in 1..NC : Cat[k].ref}),
          pairs |-> Cardinality(PairIdx), universe |-> Len(Uni),
          nonemptyref |-> Cardinality({k \in 1..NC : Cat[k].ref /\ Cat[k].expect # <<>>}),
          nonemptyint |-> Cardinality({n \in PairIdx : Obs[n].mi # <<>>})]
ASSUME CSVWrite("%1$s", <<ToJson([law |-> "stats", a |-> 0, b |-> 0, detail |-> 0, stats |-> Stats])>>, RejFile)
=============================================================================
