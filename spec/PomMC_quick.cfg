CONSTANTS Big = FALSE
INIT Init
NEXT Next
INVARIANT Emit
