CONSTANTS
  Tier = "thorough"
  SysName = "Maven"
INIT Init
NEXT Next
INVARIANT Emit
