CONSTANTS Tier = "quick"
INIT Init
NEXT Next
INVARIANT Emit
