import order_common


def run(ctx):
    return order_common.run(ctx, "C10", "5-C10")
