"""C17: v3alpha is a wire-compatible superset of v3; Go bindings match the .proto; resolver constants match the enum.
Descriptors are extracted from the two generated Go packages (harness/cmd/apidesc3, apidesc3alpha) and parsed from the two
.proto sources (lib/protoparse.py, proto3 subset, refuses anything else); TLC explores the wire model of spec/ApiCompat.tla
completely (every method x request/response x every message-typed field path up to MaxDepth) plus a static pass over every
definition, the generated-vs-source comparison, the system constants, and the gRPC bindings (every generated client stub and
server handler is driven once and the path it really uses is compared with the descriptor)."""
import json, os, subprocess, sys, time
import vlib
import protoparse


def run(ctx):
    pid = "C17"
    t0 = time.time()
    wdir = vlib.workdir(pid, "replay" if ctx.replay else None)
    b3 = vlib.build_harness("apidesc3", tags=None)
    bA = vlib.build_harness("apidesc3alpha", tags=None)
    data = {"go3": json.loads(vlib.run_harness(b3, [])), "goA": json.loads(vlib.run_harness(bA, [])),
            "consts": json.loads(vlib.run_harness(b3, ["consts"])),
            "grpc3": json.loads(vlib.run_harness(b3, ["grpc"])), "grpcA": json.loads(vlib.run_harness(bA, ["grpc"]))}
    try:
        data["src3"] = protoparse.parse(open(os.path.join(vlib.REPO, "api/v3/api.proto")).read())
        data["srcA"] = protoparse.parse(open(os.path.join(vlib.REPO, "api/v3alpha/api.proto")).read())
    except protoparse.Unsupported as e:
        raise vlib.Trouble("the .proto sources use a construct outside the parser's proto3 subset: %s" % e)
    apif = os.path.join(wdir, "api.json")
    json.dump(data, open(apif, "w"))
    rejf = os.path.join(wdir, "rej")
    r = vlib.tlc("ApiCompat", os.path.join(vlib.SPEC, "ApiCompat_%s.cfg" % ctx.tier), wdir, env={"VERIF_API": apif, "VERIF_REJ": rejf},
                 workers=8, timeout=1800)
    vlib.tlc_must_pass(r, "ApiCompat")
    verdict = vlib.Verdict(pid)
    seen = set()
    for x in vlib.read_ndjson(rejf):
        sig = "%s|%s|%s" % (x["law"], x["where"], x["what"])
        if sig in seen:
            continue
        seen.add(sig)
        verdict.fail(sig, {"law": x["law"], "where": x["where"], "what": x["what"], "reached_via": x["via"]})
    if ctx.replay:
        want = json.load(open(ctx.replay))["signature"]
        if any(s == want for s, _ in verdict.violations):
            print("VIOLATION property=%s replay=%s" % (pid, ctx.replay))
            return 1
        print("replay: case no longer fails on the current tree")
        return 0
    rc = verdict.finish(wdir)
    g3 = data["go3"]
    nfields = sum(len(m["fields"]) for m in g3["messages"])
    nvals = sum(len(e["values"]) for e in g3["enums"])
    nmeth = sum(len(s["methods"]) for s in g3["services"])
    cov = {"states": r.distinct, "transitions": r.generated, "traces_validated_against_impl": 4,
           "evaluations": nfields + nvals + nmeth + len(g3["messages"]) + len(g3["enums"]), "distinct_nontrivial": nfields + nvals + nmeth,
           "rule": "every v3 service method, message, field, enum and enum value (static pass) and every walk method x request/response x field path "
                   "up to the depth bound (TLC states); the four descriptor sets are the artefacts bound to the model",
           "samples": [{"method": g3["services"][0]["methods"][0]}, {"message": g3["messages"][0]}],
           "v3": {"methods": nmeth, "messages": len(g3["messages"]), "fields": nfields, "enums": len(g3["enums"]), "enum_values": nvals},
           "exhaustive": True, "known_findings_hit": {k: v[0] for k, v in verdict.hits.items()}}
    vlib.write_evidence(pid, ctx.tier, ctx.seed, "model_checking", cov, time.time() - t0, violations=len(verdict.violations),
                        assumptions=["no protoc in the sandbox: 'generated code describes the sources' is checked descriptor-against-parsed-source, not by regeneration",
                                     "lib/protoparse.py handles the proto3 subset the two files use and refuses anything else (exit 2)"])
    return rc
