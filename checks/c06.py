"""C06: an npm resolution graph is a valid, loadable node_modules installation.
Seeded universes over the pools of NpmModel.tla (5-12 packages, 1-5 versions incl. prereleases, deprecated and
latest-tagged ones, regular/optional/dev/peer/bundle-scoped requirements, every operator kind, cycles, diamond conflicts,
aliases) -> real npm resolver over a LocalClient with the install-tree hook (build tag verif) -> TLC NpmTrace evaluates
NpmModel!NpmViolations (edge satisfaction, completeness, reachability, fresh-install pick rule, one name per directory,
Node lookup lands on the edge target) on every recorded (universe, graph, tree).
Second source of universes: NpmResolve.tla models the resolver itself (depth-first stack, walk up the install tree, reuse and
slot protection, pick rule, hoisting as high as the tree allows) as a state machine for universes without
bundles (aliases are modelled); TLC NpmResolveMC explores it on EVERY universe of a small family, checks one-name-per-directory at every step and
every clause of C06 on every (graph, tree) the MODEL returns, and emits each universe with the model's graph and tree; the real
resolver is run on all of them, judged by the same clauses, and compared with the model (information)."""
import json, os, random, time
import vlib

KINDS = ["reg"] * 14 + ["opt"] * 2 + ["dev"] * 2 + ["peer", "bundle"]


def gen_universe(rng, tables):
    nv, nr = len(tables["versions"]), len(tables["reqs"])
    sat = tables["sat"]
    npk = rng.randint(5, 12)
    names = ["p%d" % i for i in range(1, npk + 1)]
    releases = [i for i in range(1, nv + 1) if "-" not in tables["versions"][i - 1]]
    pres = [i for i in range(1, nv + 1) if "-" in tables["versions"][i - 1]]
    vers = {}
    for n in names:
        k = rng.randint(1, 5)
        chosen = set(rng.sample(releases, min(k, len(releases))))
        if rng.random() < 0.35:
            chosen.add(rng.choice(pres))
        chosen = sorted(chosen)[:5]
        r = rng.random()
        rel = [v for v in chosen if v in releases]
        if r < 0.6 and rel:
            latest = max(rel)
        elif r < 0.85:
            latest = rng.choice(chosen)
        else:
            latest = None
        vers[n] = [{"v": v, "latest": v == latest, "dep": rng.random() < 0.15, "deps": []} for v in chosen]
    for n in names:
        for ver in vers[n]:
            used = set()
            for _ in range(rng.choice([0, 1, 1, 2, 2, 3, 4])):
                dn = rng.choice(names)
                if dn in used:
                    continue
                used.add(dn)
                have = {x["v"] for x in vers[dn]}
                good = [r for r in range(1, nr + 1) if have & set(sat[r - 1])]
                r = rng.choice(good) if good and rng.random() < 0.85 else rng.randint(1, nr)
                alias = ("al-" + dn) if rng.random() < 0.08 else ""
                ver["deps"].append({"name": dn, "r": r, "kind": rng.choice(KINDS), "alias": alias})
    uni = [{"name": n, "versions": vers[n]} for n in names]
    # a root with several direct requirements that tend to conflict with transitive ones (diamonds)
    rootdeps, used = [], set()
    for _ in range(rng.randint(2, 5)):
        dn = rng.choice(names)
        if dn in used:
            continue
        used.add(dn)
        have = {x["v"] for x in vers[dn]}
        good = [r for r in range(1, nr + 1) if have & set(sat[r - 1])]
        rootdeps.append({"name": dn, "r": rng.choice(good) if good else 1, "kind": rng.choice(["reg", "reg", "reg", "opt", "dev"]), "alias": ""})
    uni.append({"name": "root", "versions": [{"v": 4, "latest": True, "dep": False, "deps": rootdeps}]})
    roots = [{"name": "root", "v": 4}]
    n = rng.choice(names)
    roots.append({"name": n, "v": rng.choice(vers[n])["v"]})
    return uni, roots


def run(ctx):
    pid = "C06"
    t0 = time.time()
    wdir = vlib.workdir(pid, "replay" if ctx.replay else None)
    vh = vlib.build_harness("vh")
    tablesf = os.path.join(wdir, "tables.json")
    r0 = vlib.tlc("NpmTables", os.path.join(vlib.SPEC, "NpmTables.cfg"), wdir, env={"VERIF_OUT": tablesf}, workers=1, timeout=300)
    vlib.tlc_must_pass(r0, "NpmTables")
    tables = json.load(open(tablesf))
    tables["sat"] = [sorted(s) for s in tables["sat"]]
    cases = []
    if ctx.replay:
        c = json.load(open(ctx.replay))["case"]
        cases = [{"universe": c["universe"], "root": c["root"]}]
    else:
        rng = random.Random(ctx.seed * 15485863 + 11)
        for _ in range(3000 if ctx.tier == "quick" else 40000):
            uni, roots = gen_universe(rng, tables)
            for rt in roots:
                cases.append({"universe": uni, "root": rt})
    nr_states = nr_gen = nmodel = 0
    if not ctx.replay:
        modelf = os.path.join(wdir, "model_cases.raw")
        rm = vlib.tlc("NpmResolveMC", os.path.join(vlib.SPEC, "NpmResolveMC_%s.cfg" % ctx.tier), wdir, env={"VERIF_OUT": modelf}, workers=12, timeout=2400, heap="12g")
        vlib.tlc_must_pass(rm, "NpmResolveMC (one name per directory at every step; every clause of C06 on the algorithm model's results)")
        nr_states, nr_gen = rm.distinct, rm.generated
        mcases = vlib.read_ndjson(modelf)
        nmodel = len(mcases)
        cases = mcases + cases
    step_info = None
    if not ctx.replay:
        step_info = vlib.step_traces(vh, "npm", "NpmStepTrace", "NpmStepTrace.cfg", wdir, tablesf, mcases if ctx.tier == "quick" else mcases[::8], "npm")
    casef = os.path.join(wdir, "cases.ndjson")
    obsf = os.path.join(wdir, "obs.ndjson")
    vlib.run_harness_split(vh, "npm", tablesf, cases, casef, obsf, nparts=1 if ctx.replay else 6)
    states, gen, rej, lines = vlib.tlc_chunks("NpmTrace", os.path.join(vlib.SPEC, "NpmTrace.cfg"), wdir, obsf, 800 if ctx.tier == "quick" else 2500,
                                              "NpmTrace", parallel=4, workers=4)
    states += r0.distinct
    gen += r0.generated
    verdict = vlib.Verdict(pid)
    resolved = nontrivial = nested = errs = 0
    for ln in lines:
        o = json.loads(ln)
        if o.get("unmapped"):
            raise vlib.Trouble("harness could not express a result in pool indices: %s" % o["unmapped"])
        if not o["ok"]:
            errs += 1
            continue
        resolved += 1
        if len(o["graph"]["nodes"]) >= 4:
            nontrivial += 1
        if any(t["parent"] > 1 for t in o["tree"]):
            nested += 1
    abandoned = sum(1 for ln in lines if "did not return within" in ln)
    if abandoned:
        print("NOTE: %d resolutions did not return within 60 s and were abandoned (a matter for C04, totality; not judged here)" % abandoned)
    model_diff = []
    for idx, x in rej:
        o = json.loads(lines[idx - 1])
        g = o["graph"]
        if x["law"].startswith("info-"):
            model_diff.append({"law": x["law"], "universe": o["universe"], "graph": g, "tree": o["tree"], "model": o.get("model")})
            continue
        detail = None
        if x["law"] in ("edge-not-satisfied", "fresh-install-pick", "node-lookup-lands-elsewhere") and x["k"]:
            e = g["edges"][x["k"] - 1]
            detail = {"edge": e, "from": g["nodes"][e["f"] - 1], "to": g["nodes"][e["t"] - 1], "requirement": tables["reqs"][e["r"] - 1]}
        elif x["law"] == "requirement-neither-resolved-nor-reported" and x["k"]:
            detail = {"node": g["nodes"][x["k"] - 1]}
        # the shape of a pick-rule failure: is the latest-tagged version a prerelease below a satisfying release?
        sig = x["law"]
        if x["law"] == "fresh-install-pick" and detail:
            pk = [p for p in o["universe"] if p["name"] == detail["to"]["name"]][0]
            sats = set(tables["sat"][detail["edge"]["r"] - 1])
            lat = [v for v in pk["versions"] if v["latest"]]
            if lat and lat[0]["v"] in sats and "-" in tables["versions"][lat[0]["v"] - 1] and detail["to"]["v"] != lat[0]["v"]:
                sig = "fresh-install-pick|latest-is-satisfying-prerelease"
        verdict.fail(sig + "|" + json.dumps(detail, sort_keys=True)[:160] if not sig.endswith("prerelease") else sig,
                     {"law": x["law"], "universe": o["universe"], "root": o["root"], "detail": detail, "graph": g, "tree": o["tree"]})
    if ctx.replay:
        if verdict.violations:
            print("VIOLATION property=%s replay=%s" % (pid, ctx.replay))
            return 1
        print("replay: case no longer fails on the current tree")
        return 0
    rc = verdict.finish(wdir)
    if model_diff:
        json.dump(model_diff[:20], open(os.path.join(wdir, "model_divergence.json"), "w"), indent=1)
        print("NOTE: the real resolver differs from the algorithm model NpmResolve.tla on %d of %d family universes (not a verdict; see %s)"
              % (len(model_diff), nmodel, os.path.join(wdir, "model_divergence.json")))
    s = json.loads(lines[0])
    cov = {"states": states + nr_states, "transitions": gen + nr_gen, "traces_validated_against_impl": resolved, "evaluations": len(lines),
           "distinct_nontrivial": nontrivial,
           "algorithm_model": {"family_universes": nmodel, "states": nr_states, "real_resolver_differs_on": len(model_diff), "step_traces": step_info},
           "rule": "every universe of the NpmResolveMC family (TLC-enumerated, with the algorithm model's graph and tree) + seeded universes over the pools of NpmModel.tla; two roots per universe; non-trivial = resolved graph with >= 4 nodes; "
                   "%d resolutions produced a nested install (a package below depth 1), %d ended in a resolver error (not judged)" % (nested, errs),
           "samples": [{"root": s["root"], "universe_packages": len(s["universe"]), "graph": s["graph"], "tree": s["tree"][:6]}],
           "resolutions_abandoned_after_60s": abandoned, "known_findings_hit": {k: v[0] for k, v in verdict.hits.items()}, "exhaustive": False}
    vlib.write_evidence(pid, ctx.tier, ctx.seed, "model_checking", cov, time.time() - t0, violations=len(verdict.violations),
                        assumptions=["TLC 1.8.0", "requirement satisfaction from Ranges.tla (npm model cross-checked against node-semver)",
                                     "install tree obtained through the verif-tagged hook npm.VerifTree", "universes without bundled (derived) packages"])
    return rc
