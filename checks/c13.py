"""C13: graph canonicalisation. TLC GraphMC enumerates all rooted base graphs up to the bounds (and checks on the model
that renumbering gives an isomorphic graph); vh graph runs the real Canon over the whole orbit of each (all renumberings
of non-root nodes x edge orders) plus seeded random graphs up to 40 nodes (20 relabelings with edge / error shuffles);
TLC GraphTrace judges each orbit with GraphCanon!OrbitRej (agreement, idempotence, content, isomorphism for <= 5 nodes)."""
import json, os, time, concurrent.futures as cf
import vlib

CFGS = {"quick": ["q1", "q2", "q3", "q4"], "thorough": ["q1", "q2", "t3", "t4", "t5"]}
NRANDOM = {"quick": 80, "thorough": 3000}
CHUNK = 2500


def trace_chunk(wdir, obsf, idx):
    rejf = obsf + ".rej"
    if os.path.exists(rejf):
        os.remove(rejf)
    r = vlib.tlc("GraphTrace", os.path.join(vlib.SPEC, "GraphTrace.cfg"), wdir, env={"VERIF_OBS": obsf, "VERIF_REJ": rejf},
                 workers=4, timeout=3000, heap="6g")
    vlib.tlc_must_pass(r, "GraphTrace chunk %d" % idx)
    return r, [x for x in vlib.read_ndjson(rejf) if x["law"] != "stats"]


def run(ctx):
    pid = "C13"
    t0 = time.time()
    wdir = vlib.workdir(pid, "replay" if ctx.replay else None)
    vh = vlib.build_harness("vh")
    verdict = vlib.Verdict(pid)
    states = gen = 0
    bases = []
    if ctx.replay:
        bases = [json.load(open(ctx.replay))["case"]["base"]]
        nrand = 0
    else:
        for c in CFGS[ctx.tier]:
            outf = os.path.join(wdir, "bases_%s.raw" % c)
            r = vlib.tlc("GraphMC", os.path.join(vlib.SPEC, "GraphMC_%s.cfg" % c), wdir, env={"VERIF_OUT": outf}, workers=12, timeout=3000, heap="8g")
            vlib.tlc_must_pass(r, "GraphMC " + c)
            states += r.distinct
            gen += r.generated
            bases += vlib.read_ndjson(outf)
        nrand = NRANDOM[ctx.tier]
    basef = os.path.join(wdir, "bases.ndjson")
    vlib.write_ndjson(basef, bases)
    obsf = os.path.join(wdir, "obs.ndjson")
    vlib.run_harness(vh, ["graph", basef, obsf, str(ctx.seed), str(nrand)], timeout=3000)
    # split the recorded orbits into chunks validated by parallel TLC processes
    chunks = []
    with open(obsf) as f:
        lines = f.readlines()
    for k in range(0, len(lines), CHUNK):
        p = os.path.join(wdir, "obs_%03d.ndjson" % (k // CHUNK))
        with open(p, "w") as g:
            g.writelines(lines[k:k + CHUNK])
        chunks.append((p, k))
    members = 0
    nontrivial = 0
    samples = []
    with cf.ThreadPoolExecutor(max_workers=4) as ex:
        futs = [(ex.submit(trace_chunk, wdir, p, i), p, k) for i, (p, k) in enumerate(chunks)]
        for fut, p, k in futs:
            r, rej = fut.result()
            states += r.distinct
            gen += r.generated
            for x in rej:
                o = json.loads(lines[k + x["n"] - 1])
                base = o["members"][0]["input"]
                sig = "%s|%s" % (x["law"], json.dumps(base, sort_keys=True, separators=(",", ":"))[:300])
                verdict.fail(sig, {"law": x["law"], "base": base,
                                   "members": [{"input": m["input"], "ok": m["ok"], "err": m["err"], "out": m["out"]} for m in o["members"][:4]]})
    for ln in lines:
        o = json.loads(ln)
        members += len(o["members"])
        g = o["members"][0]["input"]
        vers = [n["ver"] + "/" + ",".join(n["errs"]) for n in g["nodes"]]
        if len(set(vers)) < len(vers) and g["edges"]:
            nontrivial += 1
    for ln in lines[:1] + lines[-1:]:
        o = json.loads(ln)
        samples.append({"input": o["members"][0]["input"], "canon_ok": o["members"][0]["ok"], "canon": o["members"][0]["out"], "orbit_size": len(o["members"])})
    if ctx.replay:
        if verdict.violations:
            print("VIOLATION property=%s replay=%s" % (pid, ctx.replay))
            return 1
        print("replay: case no longer fails on the current tree")
        return 0
    rc = verdict.finish(wdir)
    cov = {"states": states, "transitions": gen, "traces_validated_against_impl": len(lines), "evaluations": members,
           "distinct_nontrivial": nontrivial,
           "rule": "TLC enumerates every rooted base graph up to the bounds of GraphMC_*.cfg (labels {a,b}, optional node error, every edge "
                   "set incl. self-loops, parallel edge of another type, second requirement label); orbit = all renumberings of non-root nodes x "
                   "edge orders; plus seeded random graphs up to 40 nodes x 20 relabelings. distinct = base graphs; non-trivial = has duplicate "
                   "node contents and at least one edge",
           "samples": samples, "known_findings_hit": {k: v[0] for k, v in verdict.hits.items()}, "exhaustive": False}
    vlib.write_evidence(pid, ctx.tier, ctx.seed, "model_checking", cov, time.time() - t0, violations=len(verdict.violations),
                        assumptions=["TLC 1.8.0", "isomorphism decided by brute force over node bijections for graphs of <= 5 nodes, by content bags above"])
    return rc
