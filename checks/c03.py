import ranges_common


def run(ctx):
    return ranges_common.run(ctx, "C03")
