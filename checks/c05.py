"""C05: resolution is a pure function of universe and root.
TLC SessionMC enumerates every plan (sequence of single Resolve calls and concurrent batches over 3 roots and 2 resolver
objects) up to the bound; the harness executes sampled plans on the real npm / Maven / PyPI resolvers over seeded universes
with one shared client, recording the digest of every canonicalised result and of everything the client reports after each
step; further experiments: the same universe inserted in shuffled orders, and batches of 16 concurrent calls under the race
detector. TLC SessionTrace judges every record with ResolveSession!SessionViolations."""
import json, os, random, subprocess, time
import vlib
import c06, c07, c08


def tables(wdir):
    out = {}
    for sysn, mod, cfg in (("NPM", "NpmTables", "NpmTables.cfg"), ("Maven", "MavenTables", "MavenTables.cfg"), ("PyPI", "PipTables", "PipTables.cfg")):
        f = os.path.join(wdir, "tables_%s.json" % sysn)
        r = vlib.tlc(mod, os.path.join(vlib.SPEC, cfg), wdir, env={"VERIF_OUT": f}, workers=1, timeout=300)
        vlib.tlc_must_pass(r, mod)
        t = json.load(open(f))
        for k in ("sat",):
            if k in t:
                t[k] = [sorted(s) for s in t[k]]
        for k in ("pre", "soft"):
            if k in t:
                t[k] = sorted(t[k])
        out[sysn] = t
    return out


def cyc_roots(rng, uni, main):
    """Prefer extra roots that lie on a dependency cycle and are reachable from the main root, in a version that is not the
    highest one: an answer cached while such a package was the root is the one most likely to leak into a later resolution."""
    succ = {p["name"]: {d["name"] for v in p["versions"] for d in v["deps"]} for p in uni}

    def reach(a):
        seen, todo = set(), [a]
        while todo:
            x = todo.pop()
            for y in succ.get(x, ()):
                if y not in seen:
                    seen.add(y)
                    todo.append(y)
        return seen
    from_main = reach(main)
    cands = [p for p in uni if p["name"] != main and p["name"] in from_main and p["name"] in reach(p["name"])]
    rest = [p for p in uni if p["name"] != main and p not in cands]
    rng.shuffle(cands)
    rng.shuffle(rest)
    out = []
    for p in (cands + rest)[:2]:
        vs = sorted(x["v"] for x in p["versions"])
        out.append({"name": p["name"], "v": rng.choice(vs[:-1]) if len(vs) > 1 and rng.random() < 0.7 else rng.choice(vs)})
    return out


def add_cycle(sysn, uni, main, tb):
    """A two-package cycle cy <-> cz hanging under the main root, with two versions of cy: resolving cy@low as a root goes
    through the root package again, and the main root reaches the same requirement on cy from outside."""
    if sysn == "NPM":
        lo, hi, anyreq = 4, 9, 1           # 1.0.0, 2.0.0, "*"
        dep = lambda n: {"name": n, "r": anyreq, "kind": "reg", "alias": ""}
        cy = {"name": "cy", "versions": [{"v": lo, "latest": False, "dep": False, "deps": [dep("cz")]}, {"v": hi, "latest": True, "dep": False, "deps": [dep("cz")]}]}
        cz = {"name": "cz", "versions": [{"v": lo, "latest": True, "dep": False, "deps": [dep("cy")]}]}
    elif sysn == "Maven":
        lo, hi = 1, 5                        # 1.0, 2.0 ; range [1.0,2.0) = 8 ... use "[1.5,)"? keep a range that both... soft would pin: use hard (,2.0] = 10
        dep = lambda n, r: {"name": n, "g": n.split(":")[0], "a": n.split(":")[1], "r": r, "scope": "compile", "opt": False, "typ": "", "cls": "", "excl": [], "mgmt": False}
        cy = {"name": "gc:cy", "g": "gc", "a": "cy", "versions": [{"v": lo, "deps": [dep("gc:cz", 1)]}, {"v": hi, "deps": [dep("gc:cz", 1)]}]}
        cz = {"name": "gc:cz", "g": "gc", "a": "cz", "versions": [{"v": lo, "deps": [dep("gc:cy", 10)]}]}
    else:
        lo, hi, anyreq = 1, 5, 1             # 1.0, 2.0, ">=1.0"
        dep = lambda n: {"name": n, "r": anyreq, "m": 0, "extras": []}
        cy = {"name": "cy", "versions": [{"v": lo, "deps": [dep("cz")]}, {"v": hi, "deps": [dep("cz")]}]}
        cz = {"name": "cz", "versions": [{"v": lo, "deps": [dep("cy")]}]}
    uni += [cy, cz]
    mainrec = [p for p in uni if p["name"] == main][0]
    if sysn == "Maven":
        mainrec["versions"][0]["deps"].append(dep(cz["name"], 1))
    else:
        mainrec["versions"][0]["deps"].append(dep(cz["name"]))
    return [{"name": cy["name"], "v": lo}, {"name": cy["name"], "v": hi}]


def gen_case(rng, sysn, tb):
    if sysn == "NPM":
        uni, roots = c06.gen_universe(rng, tb["NPM"])
        extra = [p for p in uni if p["name"] != "root"]
        rs = [roots[0]] + (add_cycle(sysn, uni, "root", tb) if rng.random() < 0.34 else cyc_roots(rng, uni, "root"))
        return {"universe": uni, "root": roots[0]}, rs
    if sysn == "Maven":
        uni, root = c07.gen_universe(rng, tb["Maven"], soft_only=rng.random() < 0.4)
        extra = [p for p in uni if p["name"] != root["name"]]
        rs = [root] + (add_cycle(sysn, uni, root["name"], tb) if rng.random() < 0.34 else cyc_roots(rng, uni, root["name"]))
        return {"universe": uni, "root": root, "softonly": False}, rs
    uni, root = c08.gen_universe(rng, tb["PyPI"])
    extra = [p for p in uni if p["name"] != root["name"]]
    rs = [root] + (add_cycle(sysn, uni, root["name"], tb) if rng.random() < 0.34 else cyc_roots(rng, uni, root["name"]))
    return {"universe": uni, "root": root}, rs


class CodeDied(Exception):
    """The harness process was killed by a Go runtime fatal error raised inside the code under test (not recoverable in-process)."""
    def __init__(self, fatal, top, excerpt):
        Exception.__init__(self, fatal)
        self.fatal, self.top, self.excerpt = fatal, top, excerpt


def run_session(binpath, args, wdir, race):
    env = vlib.env_with({"GORACE": "halt_on_error=0 exitcode=0"} if race else None)
    p = subprocess.run([binpath] + args, cwd=wdir, env=env, timeout=3000, stdout=subprocess.PIPE, stderr=subprocess.PIPE, text=True)
    if p.returncode != 0:
        err = p.stderr
        if "fatal error:" in err:
            tail = err[err.index("fatal error:"):]
            fatal = tail.split("\n")[0]
            frames = [l.split("(")[0].strip() for l in tail.split("\n")[1:12] if l.startswith(("deps.dev/", "main."))]
            # the runtime names the goroutine that tripped the check first: the death belongs to the code under test when
            # its innermost frame is library code (concurrent map access, unrecoverable stack overflow ...)
            if frames and frames[0].startswith("deps.dev/util/"):
                raise CodeDied(fatal, frames[0], tail[:3000])
        raise vlib.Trouble("session harness exited %s\n%s" % (p.returncode, p.stderr[-4000:]))
    return p.stderr


def lru_seeded(seed, n):
    """Long histories over more keys than fit, sizes 1..5: eviction, re-insertion and update of every position."""
    rng = random.Random(seed * 6151 + 17)
    out = []
    for _ in range(n):
        m = rng.randint(1, 5)
        nk = rng.randint(m, m + 4)
        ops = []
        for _ in range(rng.randint(10, 120)):
            if rng.random() < 0.55:
                ops.append({"op": "add", "k": rng.randint(1, nk), "v": rng.randint(1, 9)})
            else:
                ops.append({"op": "get", "k": rng.randint(1, nk), "v": 0})
        out.append({"max": m, "ops": ops})
    return out


def lru_phase(ctx, wdir, verdict, only=None):
    """The resolver's shared LRU caches (production size 10,000, so resolver-level runs never evict): TLC LruMC checks the design
    properties of Lru.tla and enumerates every Add/Get history up to the bound; the real cache executes each (driver overlaid into
    the module, /repo untouched); TLC LruTrace consumes each history as Lru actions and compares reply and state at every step."""
    drv = vlib.build_lru_driver()
    states = gen = 0
    if only is not None:
        hists = [only]
    else:
        outf = os.path.join(wdir, "lru_hists.raw")
        r = vlib.tlc("LruMC", os.path.join(vlib.SPEC, "LruMC_%s.cfg" % ctx.tier), wdir, env={"VERIF_OUT": outf}, workers=12, timeout=1500, heap="6g")
        vlib.tlc_must_pass(r, "LruMC")
        states, gen = r.distinct, r.generated
        if ctx.tier != "quick":
            r = vlib.tlc("LruMC", os.path.join(vlib.SPEC, "LruMC_deep.cfg"), wdir, env={"VERIF_OUT": os.devnull}, workers=12, timeout=1500, heap="6g")
            vlib.tlc_must_pass(r, "LruMC deep")
            states, gen = states + r.distinct, gen + r.generated
        hists = vlib.read_ndjson(outf) + lru_seeded(ctx.seed, 300 if ctx.tier == "quick" else 5000)
    hf = os.path.join(wdir, "lru_hists.ndjson")
    obsf = os.path.join(wdir, "lru_obs.ndjson")
    vlib.write_ndjson(hf, hists)
    vlib.run_harness(drv, [hf, obsf], timeout=1500)
    s2, g2, rej, lines = vlib.tlc_chunks("LruTrace", os.path.join(vlib.SPEC, "LruTrace.cfg"), wdir, obsf, 6000, "LruTrace")
    if len(lines) != len(hists):
        raise vlib.Trouble("LRU driver recorded %d of %d histories" % (len(lines), len(hists)))
    evicting = 0
    for h in hists:
        if len({o["k"] for o in h["ops"] if o["op"] == "add"}) > h["max"]:
            evicting += 1
    for idx, x in rej:
        h = hists[idx - 1]
        o = json.loads(lines[idx - 1])
        k = x["k"]
        sig = "lru-%s|max=%d|%s" % (x["law"], h["max"], json.dumps(h["ops"][:k], sort_keys=True, separators=(",", ":"))[-160:])
        verdict.fail(sig, {"law": "lru-" + x["law"], "step": k, "lru_history": h, "observed": o["steps"][k - 1] if k <= len(o["steps"]) else {"panic": o["panic"]},
                           "session": {}})
    return {"lru_model_states": states + s2, "lru_histories_replayed": len(hists), "lru_steps_validated": sum(len(h["ops"]) for h in hists),
            "lru_histories_with_eviction": evicting}, states + s2, gen + g2


def run(ctx):
    try:
        return run_checked(ctx)
    except CodeDied as e:
        # a resolver that kills the process under concurrent use contradicts "no matter how many resolutions run concurrently"
        verdict = vlib.Verdict("C05")
        verdict.fail("resolver-killed-the-process-under-concurrent-use|%s|%s" % (e.fatal, e.top), {"law": "process-died", "fatal": e.fatal, "innermost_frame": e.top, "stderr": e.excerpt})
        rc = verdict.finish(vlib.workdir("C05", "died"))
        vlib.write_evidence("C05", ctx.tier, ctx.seed, "model_checking", {"states": 0, "transitions": 0, "traces_validated_against_impl": 0, "evaluations": 1, "distinct_nontrivial": 1,
                            "rule": "the session harness was killed by a Go runtime fatal error inside the resolver", "samples": [{"fatal": e.fatal, "frame": e.top}], "exhaustive": False},
                            0.0, violations=len(verdict.violations), assumptions=["TLC 1.8.0"])
        return rc


def run_checked(ctx):
    pid = "C05"
    t0 = time.time()
    wdir = vlib.workdir(pid, "replay" if ctx.replay else None)
    if ctx.replay and "lru_history" in json.load(open(ctx.replay)).get("case", {}):
        verdict = vlib.Verdict(pid)
        lru_phase(ctx, wdir, verdict, only=json.load(open(ctx.replay))["case"]["lru_history"])
        if verdict.violations:
            print("VIOLATION property=%s replay=%s" % (pid, ctx.replay))
            return 1
        print("replay: case no longer fails on the current tree")
        return 0
    vh = vlib.build_harness("vh")
    tb = tables(wdir)
    tablesf = os.path.join(wdir, "tables.json")
    json.dump(tb, open(tablesf, "w"))
    quick = ctx.tier == "quick"
    states = gen = 0
    cases, race_cases = [], []
    if ctx.replay:
        c = json.load(open(ctx.replay))["case"]
        (race_cases if c["session"].get("parallel") else cases).append(c["session"])
    else:
        planf = os.path.join(wdir, "plans.raw")
        r = vlib.tlc("SessionMC", os.path.join(vlib.SPEC, "SessionMC_%s.cfg" % ctx.tier), wdir, env={"VERIF_OUT": planf}, workers=8, timeout=1800)
        vlib.tlc_must_pass(r, "SessionMC")
        states, gen = r.distinct, r.generated
        plans = vlib.read_ndjson(planf)
        rng = random.Random(ctx.seed * 86028121 + 1)
        nuni = 20 if quick else 150
        for sysn in ("NPM", "Maven", "PyPI"):
            for _ in range(nuni):
                case, roots = gen_case(rng, sysn, tb)
                seqplans = [pl for pl in plans if all(st["kind"] == "one" for st in pl["steps"])]
                batchplans = [pl for pl in plans if any(st["kind"] == "batch" for st in pl["steps"])]
                # every purely sequential plan (they are few) plus a sample of the plans with concurrent batches
                chosen = (seqplans if quick else rng.sample(seqplans, min(len(seqplans), 150))) + rng.sample(batchplans, 12 if quick else 60)
                for pl in chosen:
                    cases.append({"sys": sysn, "case": case, "roots": roots, "steps": pl["steps"], "orders": 0, "parallel": 0})
                cases.append({"sys": sysn, "case": case, "roots": roots, "steps": [], "orders": 4, "parallel": 0})
                race_cases.append({"sys": sysn, "case": case, "roots": roots, "steps": [], "orders": 0, "parallel": 16})
    obs_all = os.path.join(wdir, "obs.ndjson")
    parts = []
    if cases:
        casef, obsf = os.path.join(wdir, "cases.ndjson"), os.path.join(wdir, "obs_plain.ndjson")
        vlib.write_ndjson(casef, cases)
        run_session(vh, ["session", tablesf, casef, obsf, str(ctx.seed)], wdir, False)
        parts.append((obsf, cases))
    race_reports = 0
    if race_cases:
        vhr = vlib.build_harness("vh", race=True)
        casef, obsf = os.path.join(wdir, "cases_race.ndjson"), os.path.join(wdir, "obs_race.ndjson")
        vlib.write_ndjson(casef, race_cases)
        err = run_session(vhr, ["session", tablesf, casef, obsf, str(ctx.seed)], wdir, True)
        parts.append((obsf, race_cases))
        race_reports = err.count("WARNING: DATA RACE")
        if race_reports:
            with open(os.path.join(wdir, "race_report.txt"), "w") as f:
                f.write(err[:200000])
    owners = []
    with open(obs_all, "w") as out:
        for obsf, cs in parts:
            lines = open(obsf).readlines()
            if len(lines) != len(cs):
                raise vlib.Trouble("session harness wrote %d records for %d cases" % (len(lines), len(cs)))
            out.writelines(lines)
            owners += cs
        if race_reports:
            first = err[err.index("WARNING: DATA RACE"):][:1500]
            out.write(json.dumps({"kind": "race", "sys": "", "client0": "", "events": [], "digests": [], "note": first}) + "\n")
            owners.append({"race_report": first})
    s2, g2, rej, lines = vlib.tlc_chunks("SessionTrace", os.path.join(vlib.SPEC, "SessionTrace.cfg"), wdir, obs_all, 3000, "SessionTrace")
    verdict = vlib.Verdict(pid)
    calls = sum(len(json.loads(l)["events"]) + len(json.loads(l)["digests"]) * 3 for l in lines)
    nontrivial = sum(1 for l in lines if len({e["digest"] for e in json.loads(l)["events"]}) > 1)
    for idx, x in rej:
        o = json.loads(lines[idx - 1])
        own = owners[idx - 1]
        if o["kind"] == "race":
            verdict.fail("data-race-reported|" + "".join(ch for ch in o["note"].split("\n")[2][:80] if ch.isalnum() or ch in "._:()/ "), {"law": x["law"], "report": o["note"], "session": {}})
            continue
        sig = "%s|%s" % (x["law"], o["sys"])
        verdict.fail(sig + "|" + json.dumps(own.get("steps"))[:80] + "|" + json.dumps(own["roots"]),
                     {"law": x["law"], "system": o["sys"], "events": o["events"][:12], "digests": o["digests"], "client0": o["client0"], "session": own})
    if ctx.replay:
        if verdict.violations:
            print("VIOLATION property=%s replay=%s" % (pid, ctx.replay))
            return 1
        print("replay: case no longer fails on the current tree")
        return 0
    lru_cov, ls, lg = lru_phase(ctx, wdir, verdict)
    rc = verdict.finish(wdir)
    so = json.loads(lines[0])
    cov = {"states": states + s2 + ls, "transitions": gen + g2 + lg, "traces_validated_against_impl": len(lines), "evaluations": calls,
           "distinct_nontrivial": nontrivial,
           "rule": "TLC enumerates all plans up to the bound of SessionMC_*.cfg; sampled plans x seeded universes (npm, Maven, PyPI) on one shared client; "
                   "insertion-order experiments (4 shuffles); %d batches of 16 concurrent calls under -race (%d race reports); evaluations = Resolve calls; "
                   "non-trivial = session whose roots resolve to different graphs" % (len(race_cases), race_reports),
           "samples": [{"system": so["sys"], "plan": owners[0].get("steps"), "events": so["events"][:4]}],
           "known_findings_hit": {k: v[0] for k, v in verdict.hits.items()}, "exhaustive": False}
    cov.update(lru_cov)
    cov["rule"] += "; resolver LRU caches: every Add/Get history up to the bound of LruMC_*.cfg plus seeded long histories on the real cache, reply and full state compared with Lru.tla after every step"
    vlib.write_evidence(pid, ctx.tier, ctx.seed, "model_checking", cov, time.time() - t0, violations=len(verdict.violations),
                        assumptions=["TLC 1.8.0", "digest = SHA-1 of the canonicalised graph text (order-independent content digest when Canon fails)",
                                     "interleavings below whole-call granularity are covered only by the Go race detector's happens-before analysis"])
    return rc
