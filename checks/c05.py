"""C05: resolution is a pure function of universe and root.
TLC SessionMC enumerates every plan (sequence of single Resolve calls and concurrent batches over 3 roots and 2 resolver
objects) up to the bound; the harness executes sampled plans on the real npm / Maven / PyPI resolvers over seeded universes
with one shared client, recording the digest of every canonicalised result and of everything the client reports after each
step; further experiments: the same universe inserted in shuffled orders, and batches of 16 concurrent calls under the race
detector. TLC SessionTrace judges every record with ResolveSession!SessionViolations."""
import json, os, random, subprocess, time
import vlib
import c06, c07, c08


def tables(wdir):
    out = {}
    for sysn, mod, cfg in (("NPM", "NpmTables", "NpmTables.cfg"), ("Maven", "MavenTables", "MavenTables.cfg"), ("PyPI", "PipTables", "PipTables.cfg")):
        f = os.path.join(wdir, "tables_%s.json" % sysn)
        r = vlib.tlc(mod, os.path.join(vlib.SPEC, cfg), wdir, env={"VERIF_OUT": f}, workers=1, timeout=300)
        vlib.tlc_must_pass(r, mod)
        t = json.load(open(f))
        for k in ("sat",):
            if k in t:
                t[k] = [sorted(s) for s in t[k]]
        for k in ("pre", "soft"):
            if k in t:
                t[k] = sorted(t[k])
        out[sysn] = t
    return out


def gen_case(rng, sysn, tb):
    if sysn == "NPM":
        uni, roots = c06.gen_universe(rng, tb["NPM"])
        extra = [p for p in uni if p["name"] != "root"]
        rs = [roots[0]] + [{"name": p["name"], "v": rng.choice(p["versions"])["v"]} for p in rng.sample(extra, 2)]
        return {"universe": uni, "root": roots[0]}, rs
    if sysn == "Maven":
        uni, root = c07.gen_universe(rng, tb["Maven"], soft_only=rng.random() < 0.4)
        extra = [p for p in uni if p["name"] != root["name"]]
        rs = [root] + [{"name": p["name"], "v": rng.choice(p["versions"])["v"]} for p in rng.sample(extra, 2)]
        return {"universe": uni, "root": root, "softonly": False}, rs
    uni, root = c08.gen_universe(rng, tb["PyPI"])
    extra = [p for p in uni if p["name"] != root["name"]]
    rs = [root] + [{"name": p["name"], "v": rng.choice(p["versions"])["v"]} for p in rng.sample(extra, 2)]
    return {"universe": uni, "root": root}, rs


def run_session(binpath, args, wdir, race):
    env = vlib.env_with({"GORACE": "halt_on_error=0 exitcode=0"} if race else None)
    p = subprocess.run([binpath] + args, cwd=wdir, env=env, timeout=3000, stdout=subprocess.PIPE, stderr=subprocess.PIPE, text=True)
    if p.returncode != 0:
        raise vlib.Trouble("session harness exited %s\n%s" % (p.returncode, p.stderr[-4000:]))
    return p.stderr


def run(ctx):
    pid = "C05"
    t0 = time.time()
    wdir = vlib.workdir(pid, "replay" if ctx.replay else None)
    vh = vlib.build_harness("vh")
    tb = tables(wdir)
    tablesf = os.path.join(wdir, "tables.json")
    json.dump(tb, open(tablesf, "w"))
    quick = ctx.tier == "quick"
    states = gen = 0
    cases, race_cases = [], []
    if ctx.replay:
        c = json.load(open(ctx.replay))["case"]
        (race_cases if c["session"].get("parallel") else cases).append(c["session"])
    else:
        planf = os.path.join(wdir, "plans.raw")
        r = vlib.tlc("SessionMC", os.path.join(vlib.SPEC, "SessionMC_%s.cfg" % ctx.tier), wdir, env={"VERIF_OUT": planf}, workers=8, timeout=1800)
        vlib.tlc_must_pass(r, "SessionMC")
        states, gen = r.distinct, r.generated
        plans = vlib.read_ndjson(planf)
        rng = random.Random(ctx.seed * 86028121 + 1)
        nuni = 12 if quick else 120
        for sysn in ("NPM", "Maven", "PyPI"):
            for _ in range(nuni):
                case, roots = gen_case(rng, sysn, tb)
                for pl in rng.sample(plans, 25 if quick else 120):
                    cases.append({"sys": sysn, "case": case, "roots": roots, "steps": pl["steps"], "orders": 0, "parallel": 0})
                cases.append({"sys": sysn, "case": case, "roots": roots, "steps": [], "orders": 4, "parallel": 0})
                race_cases.append({"sys": sysn, "case": case, "roots": roots, "steps": [], "orders": 0, "parallel": 16})
    obs_all = os.path.join(wdir, "obs.ndjson")
    parts = []
    if cases:
        casef, obsf = os.path.join(wdir, "cases.ndjson"), os.path.join(wdir, "obs_plain.ndjson")
        vlib.write_ndjson(casef, cases)
        run_session(vh, ["session", tablesf, casef, obsf, str(ctx.seed)], wdir, False)
        parts.append((obsf, cases))
    race_reports = 0
    if race_cases:
        vhr = vlib.build_harness("vh", race=True)
        casef, obsf = os.path.join(wdir, "cases_race.ndjson"), os.path.join(wdir, "obs_race.ndjson")
        vlib.write_ndjson(casef, race_cases)
        err = run_session(vhr, ["session", tablesf, casef, obsf, str(ctx.seed)], wdir, True)
        parts.append((obsf, race_cases))
        race_reports = err.count("WARNING: DATA RACE")
        if race_reports:
            with open(os.path.join(wdir, "race_report.txt"), "w") as f:
                f.write(err[:200000])
    owners = []
    with open(obs_all, "w") as out:
        for obsf, cs in parts:
            lines = open(obsf).readlines()
            if len(lines) != len(cs):
                raise vlib.Trouble("session harness wrote %d records for %d cases" % (len(lines), len(cs)))
            out.writelines(lines)
            owners += cs
        if race_reports:
            first = err[err.index("WARNING: DATA RACE"):][:1500]
            out.write(json.dumps({"kind": "race", "sys": "", "client0": "", "events": [], "digests": [], "note": first}) + "\n")
            owners.append({"race_report": first})
    s2, g2, rej, lines = vlib.tlc_chunks("SessionTrace", os.path.join(vlib.SPEC, "SessionTrace.cfg"), wdir, obs_all, 3000, "SessionTrace")
    verdict = vlib.Verdict(pid)
    calls = sum(len(json.loads(l)["events"]) + len(json.loads(l)["digests"]) * 3 for l in lines)
    nontrivial = sum(1 for l in lines if len({e["digest"] for e in json.loads(l)["events"]}) > 1)
    for idx, x in rej:
        o = json.loads(lines[idx - 1])
        own = owners[idx - 1]
        if o["kind"] == "race":
            verdict.fail("data-race-reported|" + "".join(ch for ch in o["note"].split("\n")[2][:80] if ch.isalnum() or ch in "._:()/ "), {"law": x["law"], "report": o["note"], "session": {}})
            continue
        sig = "%s|%s" % (x["law"], o["sys"])
        verdict.fail(sig + "|" + json.dumps(own.get("steps"))[:80] + "|" + json.dumps(own["roots"]),
                     {"law": x["law"], "system": o["sys"], "events": o["events"][:12], "digests": o["digests"], "client0": o["client0"], "session": own})
    if ctx.replay:
        if verdict.violations:
            print("VIOLATION property=%s replay=%s" % (pid, ctx.replay))
            return 1
        print("replay: case no longer fails on the current tree")
        return 0
    rc = verdict.finish(wdir)
    so = json.loads(lines[0])
    cov = {"states": states + s2, "transitions": gen + g2, "traces_validated_against_impl": len(lines), "evaluations": calls,
           "distinct_nontrivial": nontrivial,
           "rule": "TLC enumerates all plans up to the bound of SessionMC_*.cfg; sampled plans x seeded universes (npm, Maven, PyPI) on one shared client; "
                   "insertion-order experiments (4 shuffles); %d batches of 16 concurrent calls under -race (%d race reports); evaluations = Resolve calls; "
                   "non-trivial = session whose roots resolve to different graphs" % (len(race_cases), race_reports),
           "samples": [{"system": so["sys"], "plan": owners[0].get("steps"), "events": so["events"][:4]}],
           "known_findings_hit": {k: v[0] for k, v in verdict.hits.items()}, "exhaustive": False}
    vlib.write_evidence(pid, ctx.tier, ctx.seed, "model_checking", cov, time.time() - t0, violations=len(verdict.violations),
                        assumptions=["TLC 1.8.0", "digest = SHA-1 of the canonicalised graph text (order-independent content digest when Canon fails)",
                                     "interleavings below whole-call granularity are covered only by the Go race detector's happens-before analysis"])
    return rc
