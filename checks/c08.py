"""C08: a PyPI resolution graph is a consistent pip solution.
Seeded universes over the pools of PipModel.tla (specifiers of every operator, two prereleases, markers over python_version /
sys_platform / os_name / extra, extras, cycles through the root, conflicts forcing backtracking, at most one requirement per
(dependent version, package)) -> real PyPI resolver over a LocalClient -> TLC PipTrace evaluates PipModel!PipViolations."""
import json, os, random, time
import vlib


def gen_universe(rng, tb):
    nv, nr, nm = len(tb["versions"]), len(tb["reqs"]), len(tb["markers"])
    pre = set(tb["pre"])
    finals = [i for i in range(1, nv + 1) if i not in pre]
    n = rng.randint(4, 10)
    names = ["pk%d" % i for i in range(1, n + 1)]
    have = {}
    for nm_ in names:
        vs = set(rng.sample(finals, rng.randint(1, 4)))
        if rng.random() < 0.25:
            vs.add(rng.choice(sorted(pre)))
        have[nm_] = sorted(vs)

    def mkdeps(owner):
        deps, used = [], set()
        for _ in range(rng.choice([0, 1, 1, 2, 2, 3])):
            dn = rng.choice(names + (["root"] if rng.random() < 0.15 else []))
            if dn in used or dn == owner:
                continue
            used.add(dn)
            hv = have.get(dn, ROOTV)
            good = [r for r in range(1, nr + 1) if set(hv) & set(tb["sat"][r - 1])]
            r = rng.choice(good) if good and rng.random() < 0.9 else rng.randint(1, nr)
            m = rng.randint(1, nm) if rng.random() < 0.35 else 0
            ex = rng.choice([[], [], [], ["test"], ["dev"], ["test", "dev"]])
            deps.append({"name": dn, "r": r, "m": m, "extras": ex})
        return deps
    uni = []
    for nm_ in names:
        vers = []
        for v in have[nm_]:
            # a version often repeats the requirements of its predecessor (a pin replaced in place then re-declares the same text)
            if vers and rng.random() < 0.4:
                deps = [dict(d) for d in vers[-1]["deps"]]
                if deps and rng.random() < 0.3:
                    deps[rng.randrange(len(deps))]["r"] = rng.randint(1, nr)
            else:
                deps = mkdeps(nm_)
            vers.append({"v": v, "deps": deps})
        uni.append({"name": nm_, "versions": vers})
    rootdeps = []
    while len(rootdeps) < 2:
        rootdeps = [d for d in mkdeps("root") if d["name"] != "root"] + rootdeps
    # the root package has other versions with requirements of their own: they must never leak into the graph
    rv = rng.choice(ROOTV)
    uni.append({"name": "root", "versions": [{"v": v, "deps": rootdeps if v == rv else [d for d in mkdeps("root") if d["name"] != "root"]} for v in ROOTV]})
    return uni, {"name": "root", "v": rv}


ROOTV = [1, 5, 8]


def run(ctx):
    pid = "C08"
    t0 = time.time()
    wdir = vlib.workdir(pid, "replay" if ctx.replay else None)
    vh = vlib.build_harness("vh")
    tablesf = os.path.join(wdir, "tables.json")
    r0 = vlib.tlc("PipTables", os.path.join(vlib.SPEC, "PipTables.cfg"), wdir, env={"VERIF_OUT": tablesf}, workers=1, timeout=300)
    vlib.tlc_must_pass(r0, "PipTables")
    tb = json.load(open(tablesf))
    tb["sat"] = [sorted(s) for s in tb["sat"]]
    tb["pre"] = sorted(tb["pre"])
    if ctx.replay:
        c = json.load(open(ctx.replay))["case"]
        cases = [{"universe": c["universe"], "root": c["root"]}]
    else:
        rng = random.Random(ctx.seed * 49979687 + 3)
        cases = []
        for _ in range(2500 if ctx.tier == "quick" else 40000):
            uni, root = gen_universe(rng, tb)
            cases.append({"universe": uni, "root": root})
    casef = os.path.join(wdir, "cases.ndjson")
    obsf = os.path.join(wdir, "obs.ndjson")
    vlib.write_ndjson(casef, cases)
    vlib.run_harness(vh, ["pip", tablesf, casef, obsf], timeout=3000)
    states, gen, rej, lines = vlib.tlc_chunks("PipTrace", os.path.join(vlib.SPEC, "PipTrace.cfg"), wdir, obsf, 400 if ctx.tier == "quick" else 2000,
                                              "PipTrace", parallel=4, workers=4)
    verdict = vlib.Verdict(pid)
    resolved = nontrivial = gerr = err = info = 0
    for ln in lines:
        o = json.loads(ln)
        if o.get("unmapped"):
            raise vlib.Trouble("harness could not express a result in pool indices: %s" % o["unmapped"])
        if o["ok"]:
            resolved += 1
            if len(o["graph"]["nodes"]) >= 4:
                nontrivial += 1
        elif o["gerr"]:
            gerr += 1
        else:
            err += 1
    for idx, x in rej:
        if x["law"].startswith("info-"):
            info += 1
            continue
        o = json.loads(lines[idx - 1])
        g = o["graph"]
        detail = {"k": x["k"]}
        if x["law"].startswith(("edge-from-", "root-carries-")):
            e = g["edges"][x["k"] - 1]
            detail = {"edge": e, "from": g["nodes"][e["f"] - 1], "to": g["nodes"][e["t"] - 1], "requirement": tb["reqs"][e["r"] - 1],
                      "marker": tb["markers"][e["m"] - 1] if e["m"] else ""}
        elif x["k"]:
            detail = {"node": g["nodes"][x["k"] - 1], "index": x["k"]}
        verdict.fail(x["law"] + "|" + json.dumps(detail, sort_keys=True)[:160],
                     {"law": x["law"], "universe": o["universe"], "root": o["root"], "detail": detail, "graph": g})
    if ctx.replay:
        if verdict.violations:
            print("VIOLATION property=%s replay=%s" % (pid, ctx.replay))
            return 1
        print("replay: case no longer fails on the current tree")
        return 0
    rc = verdict.finish(wdir)
    s = next(json.loads(l) for l in lines if json.loads(l)["ok"])
    cov = {"states": states + r0.distinct, "transitions": gen + r0.generated, "traces_validated_against_impl": resolved, "evaluations": len(lines),
           "distinct_nontrivial": nontrivial,
           "rule": "seeded PyPI universes over the pools of PipModel.tla; non-trivial = error-free graph with >= 4 nodes; %d resolutions returned a "
                   "graph-level error and %d a resolver error (neither judged: the property is conditional); %d edges were not declared by the selected "
                   "version of their source (informational, outside C08's wording)" % (gerr, err, info),
           "samples": [{"root": s["root"], "packages": len(s["universe"]), "graph": s["graph"]}],
           "known_findings_hit": {k: v[0] for k, v in verdict.hits.items()}, "spec_divergence_info": info, "exhaustive": False}
    vlib.write_evidence(pid, ctx.tier, ctx.seed, "model_checking", cov, time.time() - t0, violations=len(verdict.violations),
                        assumptions=["TLC 1.8.0", "PEP 440 order and specifier semantics from Order.tla / Ranges.tla", "marker truth from PipModel!MEval over the "
                                     "fixed environment (python 3.9.6, linux, posix)", "pip's prerelease rule: a prerelease is acceptable when the specifier names one or no final release satisfies"])
    return rc
