"""C08: a PyPI resolution graph is a consistent pip solution.
Seeded universes over the pools of PipModel.tla (specifiers of every operator, two prereleases, markers over python_version /
sys_platform / os_name / extra, extras, cycles through the root, conflicts forcing backtracking, at most one requirement per
(dependent version, package)) -> real PyPI resolver over a LocalClient -> TLC PipTrace evaluates PipModel!PipViolations.
Second source of universes: PipResolve.tla models the resolver itself (resolvelib's state stack, criteria that keep every
requirement with the version that declared it, preference key, pin / replace-in-place, backtracking with incompatibilities,
graph building) as a state machine over match tables obtained from util/semver; TLC PipResolveMC explores it on EVERY universe
of a small family, checks bounded rounds, stack shape, that every final pin is a candidate and that a returned graph breaks C08
only through the recorded deviations, and emits each universe with the model's result; the real resolver is run on all of them,
judged by the same laws and compared with the model (information).  PipResolveMC_strict.cfg states C08 on the model without
the deviations and is EXPECTED to fail: the counterexample is the design-level form of the recorded findings."""
import json, os, random, time
import vlib


def gen_universe(rng, tb):
    nv, nr, nm = len(tb["versions"]), len(tb["reqs"]), len(tb["markers"])
    pre = set(tb["pre"])
    finals = [i for i in range(1, nv + 1) if i not in pre]
    n = rng.randint(4, 10)
    names = ["pk%d" % i for i in range(1, n + 1)]
    have = {}
    for nm_ in names:
        vs = set(rng.sample(finals, rng.randint(1, 4)))
        if rng.random() < 0.25:
            vs.add(rng.choice(sorted(pre)))
        have[nm_] = sorted(vs)

    def mkdeps(owner):
        deps, used = [], set()
        for _ in range(rng.choice([0, 1, 1, 2, 2, 3])):
            dn = rng.choice(names + (["root"] if rng.random() < 0.15 else []))
            if dn in used or dn == owner:
                continue
            used.add(dn)
            hv = have.get(dn, ROOTV)
            good = [r for r in range(1, nr + 1) if set(hv) & set(tb["sat"][r - 1])]
            r = rng.choice(good) if good and rng.random() < 0.9 else rng.randint(1, nr)
            m = rng.randint(1, nm) if rng.random() < 0.35 else 0
            ex = rng.choice([[], [], [], ["test"], ["dev"], ["test", "dev"]])
            deps.append({"name": dn, "r": r, "m": m, "extras": ex})
        return deps
    uni = []
    for nm_ in names:
        vers = []
        for v in have[nm_]:
            # a version often repeats the requirements of its predecessor (a pin replaced in place then re-declares the same text)
            if vers and rng.random() < 0.4:
                deps = [dict(d) for d in vers[-1]["deps"]]
                if deps and rng.random() < 0.3:
                    deps[rng.randrange(len(deps))]["r"] = rng.randint(1, nr)
            else:
                deps = mkdeps(nm_)
            vers.append({"v": v, "deps": deps})
        uni.append({"name": nm_, "versions": vers})
    rootdeps = []
    while len(rootdeps) < 2:      # at most one requirement per (dependent version, package): C08's domain
        rootdeps += [d for d in mkdeps("root") if d["name"] != "root" and d["name"] not in {x["name"] for x in rootdeps}]
    # the root package has other versions with requirements of their own: they must never leak into the graph
    rv = rng.choice(ROOTV)
    uni.append({"name": "root", "versions": [{"v": v, "deps": rootdeps if v == rv else [d for d in mkdeps("root") if d["name"] != "root"]} for v in ROOTV]})
    return uni, {"name": "root", "v": rv}


ROOTV = [1, 5, 8]


def run(ctx):
    pid = "C08"
    t0 = time.time()
    wdir = vlib.workdir(pid, "replay" if ctx.replay else None)
    vh = vlib.build_harness("vh")
    tablesf = os.path.join(wdir, "tables.json")
    r0 = vlib.tlc("PipTables", os.path.join(vlib.SPEC, "PipTables.cfg"), wdir, env={"VERIF_OUT": tablesf}, workers=1, timeout=300)
    vlib.tlc_must_pass(r0, "PipTables")
    tb = json.load(open(tablesf))
    tb["sat"] = [sorted(s) for s in tb["sat"]]
    tb["pre"] = sorted(tb["pre"])
    if ctx.replay:
        c = json.load(open(ctx.replay))["case"]
        cases = [{"universe": c["universe"], "root": c["root"]}]
    else:
        rng = random.Random(ctx.seed * 49979687 + 3)
        cases = []
        for _ in range(5000 if ctx.tier == "quick" else 60000):
            uni, root = gen_universe(rng, tb)
            cases.append({"universe": uni, "root": root})
    pr_states = pr_gen = nmodel = 0
    design_cex = None
    if not ctx.replay:
        matchf = os.path.join(wdir, "match.json")
        vlib.run_harness(vh, ["pipmatch", tablesf, matchf])
        modelf = os.path.join(wdir, "model_cases.raw")
        rm = vlib.tlc("PipResolveMC", os.path.join(vlib.SPEC, "PipResolveMC_%s.cfg" % ctx.tier), wdir, env={"VERIF_OUT": modelf, "VERIF_MATCH": matchf}, workers=12, timeout=2400, heap="12g")
        vlib.tlc_must_pass(rm, "PipResolveMC (bounded rounds, stack shape, final pins are candidates, C08 laws up to the recorded deviations - on the algorithm model)")
        pr_states, pr_gen = rm.distinct, rm.generated
        mcases = vlib.read_ndjson(modelf)
        nmodel = len(mcases)
        cases = [{"universe": c["universe"], "root": c["root"], "model": c["model"]} for c in mcases] + cases
        if ctx.tier == "thorough":
            rn = vlib.tlc("PipResolveMC", os.path.join(vlib.SPEC, "PipResolveMC_strict.cfg"), wdir, env={"VERIF_OUT": os.path.join(wdir, "unused.raw"), "VERIF_MATCH": matchf}, workers=1, timeout=1800, heap="8g")
            if rn.error:
                raise vlib.Trouble("PipResolveMC_strict: %s" % rn.error)
            design_cex = "TLC violates DoneStrict on the algorithm model after %d distinct states (expected: the recorded deviations exist at design level)" % rn.distinct if rn.violation else \
                         "DoneStrict holds on the algorithm model (the design-level form of the findings is gone)"
    step_info = None
    if not ctx.replay:
        step_info = vlib.step_traces(vh, "pip", "PipStepTrace", "PipStepTrace.cfg", wdir, tablesf, mcases if ctx.tier == "quick" else mcases[::8], "PyPI",
                                     extra_env={"VERIF_MATCH": matchf, "VERIF_OUT": os.path.join(wdir, "unused.raw")})
    casef = os.path.join(wdir, "cases.ndjson")
    obsf = os.path.join(wdir, "obs.ndjson")
    vlib.run_harness_split(vh, "pip", tablesf, cases, casef, obsf, nparts=1 if ctx.replay else 6)
    states, gen, rej, lines = vlib.tlc_chunks("PipTrace", os.path.join(vlib.SPEC, "PipTrace.cfg"), wdir, obsf, 1300 if ctx.tier == "quick" else 4000,
                                              "PipTrace", parallel=4, workers=4)
    verdict = vlib.Verdict(pid)
    resolved = nontrivial = gerr = err = info = 0
    for ln in lines:
        o = json.loads(ln)
        if o.get("unmapped"):
            raise vlib.Trouble("harness could not express a result in pool indices: %s" % o["unmapped"])
        if o["ok"]:
            resolved += 1
            if len(o["graph"]["nodes"]) >= 4:
                nontrivial += 1
        elif o["gerr"]:
            gerr += 1
        else:
            err += 1
    abandoned = sum(1 for ln in lines if "did not return within" in ln)
    if abandoned:
        print("NOTE: %d resolutions did not return within 60 s and were abandoned (a matter for C04, totality; not judged here)" % abandoned)
    model_diff = []
    for idx, x in rej:
        if x["law"].endswith("algorithm-model"):
            o = json.loads(lines[idx - 1])
            model_diff.append({"law": x["law"], "universe": o["universe"], "graph": o["graph"], "gerr": o["gerr"], "model": o.get("model")})
            continue
        if x["law"].startswith("info-"):
            info += 1
            continue
        o = json.loads(lines[idx - 1])
        g = o["graph"]
        detail = {"k": x["k"]}
        if x["law"].startswith(("edge-from-", "root-carries-")):
            e = g["edges"][x["k"] - 1]
            detail = {"edge": e, "from": g["nodes"][e["f"] - 1], "to": g["nodes"][e["t"] - 1], "requirement": tb["reqs"][e["r"] - 1],
                      "marker": tb["markers"][e["m"] - 1] if e["m"] else ""}
        elif x["k"]:
            detail = {"node": g["nodes"][x["k"] - 1], "index": x["k"]}
        verdict.fail(x["law"] + "|" + json.dumps(detail, sort_keys=True)[:160],
                     {"law": x["law"], "universe": o["universe"], "root": o["root"], "detail": detail, "graph": g})
    if ctx.replay:
        if verdict.violations:
            print("VIOLATION property=%s replay=%s" % (pid, ctx.replay))
            return 1
        print("replay: case no longer fails on the current tree")
        return 0
    rc = verdict.finish(wdir)
    if model_diff:
        json.dump(model_diff[:20], open(os.path.join(wdir, "model_divergence.json"), "w"), indent=1)
        print("NOTE: the real resolver differs from the algorithm model PipResolve.tla on %d of %d family universes (not a verdict; see %s)"
              % (len(model_diff), nmodel, os.path.join(wdir, "model_divergence.json")))
    s = next(json.loads(l) for l in lines if json.loads(l)["ok"])
    cov = {"states": states + r0.distinct + pr_states, "transitions": gen + r0.generated + pr_gen, "traces_validated_against_impl": resolved, "evaluations": len(lines),
           "distinct_nontrivial": nontrivial,
           "rule": "every universe of the PipResolveMC family (TLC-enumerated, with the algorithm model's result) + seeded PyPI universes over the pools of PipModel.tla; non-trivial = error-free graph with >= 4 nodes; %d resolutions returned a "
                   "graph-level error and %d a resolver error (neither judged: the property is conditional); %d edges were not declared by the selected "
                   "version of their source (informational, outside C08's wording)" % (gerr, err, info),
           "samples": [{"root": s["root"], "packages": len(s["universe"]), "graph": s["graph"]}],
           "resolutions_abandoned_after_60s": abandoned, "known_findings_hit": {k: v[0] for k, v in verdict.hits.items()}, "spec_divergence_info": info, "exhaustive": False,
           "algorithm_model": {"family_universes": nmodel, "states": pr_states, "real_resolver_differs_on": len(model_diff), "c08_without_deviations_on_the_model": design_cex, "step_traces": step_info}}
    vlib.write_evidence(pid, ctx.tier, ctx.seed, "model_checking", cov, time.time() - t0, violations=len(verdict.violations),
                        assumptions=["TLC 1.8.0", "PEP 440 order and specifier semantics from Order.tla / Ranges.tla", "marker truth from PipModel!MEval over the "
                                     "fixed environment (python 3.9.6, linux, posix)", "pip's prerelease rule: a prerelease is acceptable when the specifier names one or no final release satisfies"])
    return rc
