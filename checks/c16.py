"""C16: Python requirement strings and environment markers follow PEP 508.
TLC Pep508MC enumerates requirement ASTs (names with case and -_. runs, extras, bare / parenthesised specifier lists, markers,
every PEP 508 whitespace position) and marker trees (and / or / parentheses over every supported variable and operator incl.
in / not in, reversed operands, extras) with the spec's expectation (Pep508!ReqExpect, MkEval following packaging); the harness
runs pypi.ParseDependency / CanonPackageName and observes markers through a real resolution (root -> mid[extras] -> leaf ; marker);
TLC Pep508Trace validates every record. String facts of the marker leaves are re-checked against Python semantics first."""
import json, os, time
import vlib


def check_facts(cases):
    """The relational facts TLC cannot compute (string order, substring, case-insensitive equality) must be true."""
    def walk(a):
        if a["t"] == "leaf":
            l, r = a["l"]["s"], a["r"]["s"]
            if a["l"]["var"] == "extra" or a["r"]["var"] == "extra":
                return
            if a["ord"] != (l > r) - (l < r) or a["sub"] != (l in r) or a["ieq"] != (l.lower() == r.lower()):
                raise vlib.Trouble("Pep508.tla: wrong string fact on leaf %r %s %r" % (l, a["op"], r))
        else:
            walk(a["a"])
            if a["t"] != "par":
                walk(a["b"])
    for c in cases:
        if c["kind"] == "marker":
            walk(c["ast"])


def run(ctx):
    pid = "C16"
    t0 = time.time()
    wdir = vlib.workdir(pid, "replay" if ctx.replay else None)
    vh = vlib.build_harness("vh")
    if ctx.replay:
        cases = [json.load(open(ctx.replay))["case"]["case"]]
        states = gen = 0
    else:
        outf = os.path.join(wdir, "cases.raw")
        r = vlib.tlc("Pep508MC", os.path.join(vlib.SPEC, "Pep508MC_%s.cfg" % ctx.tier), wdir, env={"VERIF_OUT": outf}, workers=8, timeout=2400, heap="8g")
        vlib.tlc_must_pass(r, "Pep508MC")
        states, gen = r.distinct, r.generated
        cases = vlib.read_ndjson(outf)
    check_facts(cases)
    casef, obsf = os.path.join(wdir, "cases.ndjson"), os.path.join(wdir, "obs.ndjson")
    vlib.write_ndjson(casef, cases)
    vlib.run_harness(vh, ["pep508", casef, obsf], timeout=3000)
    s2, g2, rej, lines = vlib.tlc_chunks("Pep508Trace", os.path.join(vlib.SPEC, "Pep508Trace.cfg"), wdir, obsf, 20000, "Pep508Trace", parallel=4)
    verdict = vlib.Verdict(pid)
    for idx, x in rej:
        o = json.loads(lines[idx - 1])
        sig = "%s|%s|%s" % (x["law"], o["text"], ",".join(o.get("extras") or []) if o["kind"] == "marker" else "")
        verdict.fail(sig, {"law": x["law"], "text": o["text"], "case": cases[idx - 1],
                           "observed": {k: o[k] for k in ("ok", "err", "name", "extras", "spec", "marker", "followed")}})
    if ctx.replay:
        if verdict.violations:
            print("VIOLATION property=%s replay=%s" % (pid, ctx.replay))
            return 1
        print("replay: case no longer fails on the current tree")
        return 0
    rc = verdict.finish(wdir)
    nreq = sum(1 for c in cases if c["kind"] == "req")
    nmark = len(cases) - nreq
    cov = {"states": states + s2, "transitions": gen + g2, "traces_validated_against_impl": len(lines), "evaluations": len(lines),
           "distinct_nontrivial": sum(1 for c in cases if c["kind"] == "marker" or any(ch in c["text"] for ch in "[;(")),
           "rule": "%d requirement strings and %d (marker, extras) cases enumerated by TLC; non-trivial = marker case, or requirement with extras / specifier / marker" % (nreq, nmark),
           "samples": [cases[len(cases) // 2], cases[-1]], "known_findings_hit": {k: v[0] for k, v in verdict.hits.items()}, "exhaustive": False}
    vlib.write_evidence(pid, ctx.tier, ctx.seed, "model_checking", cov, time.time() - t0, violations=len(verdict.violations),
                        assumptions=["TLC 1.8.0", "Pep508.tla cross-checked against packaging 26.3 on the whole quick catalogue (ref/pep508_check.py, build time)",
                                     "out of domain: literal-vs-literal comparisons, ordering of non-version strings and === on non-versions (packaging 21.3 and 26.3 disagree / raise)"])
    return rc
