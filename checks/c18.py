"""C18: the API-backed client maps bundles and aliases consistently, race-free.
TLC ApiMC model-checks the lock protocol around the shared bundle map (mutual exclusion, all-or-nothing visibility) and
enumerates a family of requirements responses (bundle trees to depth 3, aliases, scoped names with @ and /, all dependency
sections) with the model the client must expose (ApiClient!ToModel); an in-process fake Insights service serves each response
to the real APIClient; its four calls, the graph resolved through it, through an in-memory client loaded with the model's
universe, and from 16 goroutines on one client (race detector) are recorded; TLC ApiTrace validates every record."""
import json, os, subprocess, time
import vlib


def run(ctx):
    pid = "C18"
    t0 = time.time()
    wdir = vlib.workdir(pid, "replay" if ctx.replay else None)
    vh = vlib.build_harness("vh")
    vhr = vlib.build_harness("vh", race=True)
    outf = os.path.join(wdir, "cases.raw")
    if ctx.replay:
        cases = [json.load(open(ctx.replay))["case"]["case"]]
        states = gen = 0
    else:
        r = vlib.tlc("ApiMC", os.path.join(vlib.SPEC, "ApiMC.cfg"), wdir, env={"VERIF_OUT": outf}, workers=8, timeout=1200)
        vlib.tlc_must_pass(r, "ApiMC")
        states, gen = r.distinct, r.generated
        cases = vlib.read_ndjson(outf)
    casef = os.path.join(wdir, "cases.ndjson")
    vlib.write_ndjson(casef, cases)
    obsf = os.path.join(wdir, "obs.ndjson")
    # sequential observations with the plain binary; the concurrent part (16 goroutines) with the race-enabled one
    sub = cases if ctx.tier == "thorough" or ctx.replay else cases[::3]
    racef, raceobs = os.path.join(wdir, "cases_race.ndjson"), os.path.join(wdir, "obs_race.ndjson")
    vlib.write_ndjson(racef, sub)
    vlib.run_harness(vh, ["api", casef, obsf, "0"], timeout=1800)
    p = subprocess.run([vhr, "api", racef, raceobs, "16"], cwd=wdir, env=vlib.env_with({"GORACE": "halt_on_error=0 exitcode=0"}), timeout=3000,
                       stdout=subprocess.PIPE, stderr=subprocess.PIPE, text=True)
    if p.returncode != 0:
        raise vlib.Trouble("race-enabled api harness failed: %s" % p.stderr[-3000:])
    races = p.stderr.count("WARNING: DATA RACE")
    rows = [json.loads(l) for l in open(obsf)]
    conc = {json.dumps(o["resp"], sort_keys=True): o["concurrent"] for o in (json.loads(l) for l in open(raceobs))}
    first_race = p.stderr[p.stderr.index("WARNING: DATA RACE"):][:1200] if races else ""
    for k, o in enumerate(rows):
        o["concurrent"] = conc.get(json.dumps(o["resp"], sort_keys=True), [])
        o["race"] = first_race if (races and k == 0) else ""
    vlib.write_ndjson(obsf, rows)
    s2, g2, rej, lines = vlib.tlc_chunks("ApiTrace", os.path.join(vlib.SPEC, "ApiTrace.cfg"), wdir, obsf, 2000, "ApiTrace", parallel=2)
    verdict = vlib.Verdict(pid)
    for idx, x in rej:
        o = rows[idx - 1]
        sig = "%s|%s" % (x["law"], json.dumps(o["resp"], sort_keys=True, separators=(",", ":"))[:200])
        verdict.fail(sig, {"law": x["law"], "case": cases[idx - 1], "observed": {k: o[k] for k in ("rootreqs", "bundled", "apidigest", "localdigest", "concurrent", "race")}})
    if ctx.replay:
        if verdict.violations:
            print("VIOLATION property=%s replay=%s" % (pid, ctx.replay))
            return 1
        print("replay: case no longer fails on the current tree")
        return 0
    rc = verdict.finish(wdir)
    resolved = sum(1 for o in rows if not o["apidigest"].startswith("ERR"))
    nontrivial = sum(1 for o in rows if o["resp"]["bundled"])
    cov = {"states": states + s2, "transitions": gen + g2, "traces_validated_against_impl": len(rows),
           "evaluations": sum(4 * len(o["bundled"]) + 2 + len(o["concurrent"]) for o in rows), "distinct_nontrivial": nontrivial,
           "rule": "every response of the ApiMC family; non-trivial = at least one bundled package; %d of %d resolutions through the API client returned a graph; "
                   "%d responses resolved from 16 goroutines under -race (%d race reports)" % (resolved, len(rows), len(sub), races),
           "samples": [{"response": rows[-1]["resp"], "root_requirements": rows[-1]["rootreqs"], "bundled": rows[-1]["bundled"][:2]}],
           "known_findings_hit": {k: v[0] for k, v in verdict.hits.items()}, "exhaustive": False}
    vlib.write_evidence(pid, ctx.tier, ctx.seed, "model_checking", cov, time.time() - t0, violations=len(verdict.violations),
                        assumptions=["TLC 1.8.0", "in-process fake pb.InsightsClient (no network)", "lock protocol model-checked for 3 goroutines; real interleavings covered by the race detector"])
    return rc
