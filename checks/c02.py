import order_common


def run(ctx):
    return order_common.run(ctx, "C02", "5-C02")
