"""C01 / C02 / C10: version order, reference agreement, canonical strings.

Pipeline per system (DESIGN 5, C01/C02/C10):
  1. TLC OrderMC      : enumerate the bounded domain D(sys) (templates + reference keys), evaluate the
                        reference comparator on all pairs -> dom.ndjson, refm.ndjson
  2. instantiate      : identity tables and seeded tables -> two concrete domains
  3. vh order         : real Parse / Compare / Canon / SortVersions on every cell -> obs.ndjson
  4. TLC OrderTrace   : laws of the reference (model), observed laws (C01), observed = reference (C02),
                        canonical-string laws (C10) -> rejected cells
"""
import json, os, random, re, time, concurrent.futures as cf
import vlib

SYSTEMS = ["Default", "Cargo", "Go", "Maven", "NPM", "NuGet", "PyPI", "RubyGems", "Composer"]
LAWS = {
    "C01": {"refl", "antisym", "nontransitive", "nontransitive-unlawful", "history", "strcmp", "build",
            "mutated", "sort-order", "sort-classes", "history-process"},
    "C02": {"ref", "normal-rejected"},
    "C10": {"canon-unparsable", "canon-differs", "canon-not-idempotent", "canonb-unparsable", "canonb-differs",
            "canonb-not-idempotent", "canon-collision", "canonb-collision", "pycanon"},
}
ID_ALNUM = ["-", "0a", "A", "Rc", "a", "alpha", "alpha-1", "beta", "rc", "x"]
LOWER_RANK = [1, 2, 3, 7, 3, 4, 5, 6, 7, 8]


def identity_tables():
    return {"N": {n: str(n) for n in range(0, 12)}, "I": {n: str(n) for n in range(0, 12)}, "S": ID_ALNUM}


def edge_tables():
    """Boundary atoms: numerals around 2^31, 2^32, 2^53 and 2^62; identifiers made of the first and last letters of each case
    (A, Z, a, z, 9) with the same ASCII order and case-collision structure as the identity pool."""
    nums = [0, 9, 11, 2 ** 31 - 1, 2 ** 31, 2 ** 32 - 1, 2 ** 32, 2 ** 53, 2 ** 53 + 1, 2 ** 62 - 4, 2 ** 62 - 3, 2 ** 62 - 2]
    ids = [0, 1, 9, 11, 99, 2 ** 15, 2 ** 16, 2 ** 30, 2 ** 31 - 5, 2 ** 31 - 4, 2 ** 31 - 3, 2 ** 31 - 2]     # the seeded tables stay in these ranges too
    return {"N": {i: str(n) for i, n in enumerate(nums)}, "I": {i: str(n) for i, n in enumerate(ids)},
            "S": ["--", "9z", "AZ", "Zz", "az", "azz", "azz-9", "m", "zz", "zzz"]}


def seeded_tables(seed):
    """Strictly increasing numerals (0 fixed), some beyond 2^32 and near 2^62; random identifier pool with
    the same ASCII order and the same case-collision structure as the identity pool."""
    rng = random.Random(seed * 7919 + 13)
    cuts = sorted(rng.sample([rng.randrange(1, 10 ** 3), rng.randrange(10 ** 3, 2 ** 31), rng.randrange(2 ** 31, 2 ** 32),
                              rng.randrange(2 ** 32, 2 ** 40), rng.randrange(2 ** 40, 2 ** 53), rng.randrange(2 ** 53, 2 ** 61),
                              rng.randrange(2 ** 61, 2 ** 62 - 1)] + [rng.randrange(1, 2 ** 62 - 1) for _ in range(8)], 11))
    N = {0: "0"}
    for i, c in enumerate(cuts):
        N[i + 1] = str(c)
    ids = sorted(rng.sample(range(1, 2 ** 31 - 1), 11))
    I = {0: "0"}
    for i, c in enumerate(ids):
        I[i + 1] = str(c)
    letters = "abcdefghijklmnopqrstuvwxyz"

    def word(lo=2, hi=9):
        return "".join(rng.choice(letters) for _ in range(rng.randint(lo, hi)))
    for _ in range(10000):
        u, v, w, x, y = word(), word(), word(), word(), word()
        pool = ["-" * rng.randint(1, 3), str(rng.randint(0, 9)) + str(rng.randint(0, 99)) + word(1, 4), u.upper(),
                v.capitalize(), u, w, w + "-" + str(rng.randint(1, 999)), x, v, y]
        if sorted(pool) != pool or len(set(pool)) != 10:
            continue
        low = [p.lower() for p in pool]
        ranks = [sorted(set(low)).index(l) + 1 for l in low]
        if ranks != LOWER_RANK:
            continue
        return {"N": N, "I": I, "S": pool}
    raise vlib.Trouble("could not generate an identifier pool with the required order structure")


def instantiate(tmpl, T):
    def sub(m):
        k, n = m.group(1), int(m.group(2))
        return T["S"][n - 1] if k == "S" else T[k][n]
    return re.sub(r"\{([NIS])(\d+)\}", sub, tmpl)


def check_tables(T):
    assert [int(T["N"][i]) for i in range(12)] == sorted(int(T["N"][i]) for i in range(12)) and T["N"][0] == "0"
    assert len(set(T["N"].values())) == 12 and len(set(T["I"].values())) == 12
    assert [int(T["I"][i]) for i in range(12)] == sorted(int(T["I"][i]) for i in range(12)) and T["I"][0] == "0"
    pool = T["S"]
    assert sorted(pool, key=lambda s: s.encode()) == pool
    low = [p.lower() for p in pool]
    assert [sorted(set(low)).index(l) + 1 for l in low] == LOWER_RANK


def run_system(sysname, tier, seed, wdir, vh, workers):
    """Returns dict(sys, rej=[(pass, rec)], stats=[...], states, generated, dom, n_obs_files)."""
    t0 = time.time()
    out = {"sys": sysname, "rej": [], "stats": [], "states": 0, "generated": 0, "traces": 0}
    dom_t = os.path.join(wdir, "dom_%s.tmpl.ndjson" % sysname)
    ref_raw = os.path.join(wdir, "ref_%s.raw" % sysname)
    ref = os.path.join(wdir, "ref_%s.ndjson" % sysname)
    for f in (dom_t, ref_raw):
        if os.path.exists(f):
            os.remove(f)
    r = vlib.tlc("OrderMC", os.path.join(vlib.SPEC, "OrderMC_%s_%s.cfg" % (sysname, tier)), wdir,
                 env={"VERIF_DOM": dom_t, "VERIF_REF": ref_raw}, workers=workers,
                 timeout=3000 if tier == "thorough" else 900)
    vlib.tlc_must_pass(r, "OrderMC " + sysname)
    out["states"] += r.distinct
    out["generated"] += r.generated
    dom = vlib.read_ndjson(dom_t)
    n = len(dom)
    rows = {x["i"]: x["r"] for x in vlib.read_ndjson(ref_raw)}
    vlib.write_ndjson(ref, [{"i": i, "r": rows.get(i, [])} for i in range(1, n + 1)])
    passes = [("identity", identity_tables()), ("seed%d" % seed, seeded_tables(seed)), ("edge", edge_tables())]
    for d in dom:
        d["ctext"] = instantiate(d["text"], passes[0][1])
    out["dom"] = dom
    for pname, T in passes:
        check_tables(T)
        domf = os.path.join(wdir, "dom_%s_%s.ndjson" % (sysname, pname))
        obsf = os.path.join(wdir, "obs_%s_%s.ndjson" % (sysname, pname))
        rejf = os.path.join(wdir, "rej_%s_%s" % (sysname, pname))
        if os.path.exists(rejf):
            os.remove(rejf)
        recs = []
        for d in dom:
            e = dict(d)
            e["text"] = instantiate(d["text"], T)
            e["base"] = instantiate(d["base"], T)
            recs.append(e)
        if len({e["text"] for e in recs}) != n:
            raise vlib.Trouble("instantiation %s of %s is not injective" % (pname, sysname))
        vlib.write_ndjson(domf, recs)
        vlib.run_harness(vh, ["order", domf, obsf, str(seed)], timeout=3000)
        # history independence across processes: the same questions asked in a fresh process that meets the
        # versions in another (seeded) order must get the same answers (a cache keyed too coarsely shows here)
        rng = random.Random(seed * 31 + len(pname))
        perm = list(range(n))
        rng.shuffle(perm)
        domf2 = os.path.join(wdir, "dom_%s_%s.alt.ndjson" % (sysname, pname))
        obsf2 = os.path.join(wdir, "obs_%s_%s.alt.ndjson" % (sysname, pname))
        vlib.write_ndjson(domf2, [recs[k] for k in perm])
        vlib.run_harness(vh, ["order", domf2, obsf2, str(seed + 1)], timeout=3000)
        alt = vlib.read_ndjson(obsf2)[:n]
        pos = {k: a for a, k in enumerate(perm)}     # original index -> row in alt
        rows = vlib.read_ndjson(obsf)
        for i in range(n):
            ar = alt[pos[i]]
            assert ar["text"] == recs[i]["text"]
            rows[i]["cmpalt"] = [ar["cmp"][pos[j]] for j in range(n)]
            rows[i]["okalt"] = ar["ok"]
        vlib.write_ndjson(obsf, rows)
        r = vlib.tlc("OrderTrace", os.path.join(vlib.SPEC, "OrderTrace.cfg"), wdir,
                     env={"VERIF_DOM": domf, "VERIF_OBS": obsf, "VERIF_REJ": rejf, "VERIF_REF": ref},
                     workers=workers, timeout=3000 if tier == "thorough" else 900)
        vlib.tlc_must_pass(r, "OrderTrace %s %s" % (sysname, pname))
        out["states"] += r.distinct
        out["generated"] += r.generated
        out["traces"] += 1
        for rec in vlib.read_ndjson(rejf):
            if rec["law"] == "stats":
                out["stats"].append((pname, rec["stats"]))
            else:
                rec["texts"] = [recs[k - 1]["text"] for k in (rec["i"], rec["j"]) if 1 <= k <= n]
                out["rej"].append((pname, rec))
    out["wall"] = time.time() - t0
    return out


def signature(sysname, dom, rec):
    n = len(dom)
    law = rec["law"]

    def ct(k):
        return dom[k - 1]["ctext"] if 1 <= k <= n else "#%d" % k
    if law == "nontransitive":
        return "%s|%s|%s|%s|%s" % (law, sysname, ct(rec["i"]), ct(rec["j"]), ct(rec["want"]))
    if law == "nontransitive-unlawful":
        return "%s|%s" % (law, sysname)
    if law.startswith("sort-"):
        return "%s|%s|%s" % (law, sysname, "shuffle")
    if rec["i"] == rec["j"]:
        return "%s|%s|%s|%s|%s" % (law, sysname, ct(rec["i"]), rec["want"], rec["got"])
    return "%s|%s|%s|%s|%s|%s" % (law, sysname, ct(rec["i"]), ct(rec["j"]), rec["want"], rec["got"])


def run(ctx, pid, design_ref):
    t0 = time.time()
    tier, seed = ctx.tier, ctx.seed
    if ctx.replay:
        return replay(ctx, pid)
    wdir = vlib.workdir(pid)
    vh = vlib.build_harness("vh")
    results = []
    with cf.ThreadPoolExecutor(max_workers=5) as ex:
        futs = [ex.submit(run_system, s, tier, seed, wdir, vh, 3) for s in SYSTEMS]
        for f in futs:
            results.append(f.result())
    verdict = vlib.Verdict(pid)
    laws = LAWS[pid]
    evaluations = 0
    nontrivial = set()
    samples = []
    stats = {}
    for res in results:
        dom = res["dom"]
        n = len(dom)
        for pname, st in res["stats"]:
            stats["%s/%s" % (res["sys"], pname)] = st
            if pid == "C01":
                evaluations += st["parsed"] ** 2
            elif pid == "C02":
                evaluations += st["ref"] ** 2
            else:
                evaluations += st["parsed"]
        # distinct non-trivial cases: abstract cases (identity text) that carry a prerelease / qualifier /
        # extra segment or spelling variant, i.e. anything but a plain dotted number
        for d in dom:
            if pid == "C02" and not d["ref"]:
                continue
            if re.fullmatch(r"v?\d+(\.\d+)*", d["ctext"]) is None:
                nontrivial.add((res["sys"], d["ctext"]))
        for pname, rec in res["rej"]:
            if rec["law"] not in laws:
                continue
            sig = signature(res["sys"], dom, rec)
            case = {"system": res["sys"], "law": rec["law"], "pass": pname, "texts": rec.get("texts"),
                    "want": rec["want"], "got": rec["got"],
                    "records": [dom[k - 1] for k in {rec["i"], rec["j"]} | ({rec["want"]} if rec["law"] == "nontransitive" else set()) if 1 <= k <= n]}
            verdict.fail(sig, case)
        for d in dom[:2]:
            samples.append({"system": res["sys"], "text": d["ctext"], "reference_key": d["key"] if d["ref"] else None})
    rc = verdict.finish(wdir)
    cov = {
        "states": sum(r["states"] for r in results), "transitions": sum(r["generated"] for r in results),
        "traces_validated_against_impl": sum(r["traces"] for r in results),
        "evaluations": evaluations, "distinct_nontrivial": len(nontrivial),
        "rule": "TLC enumerates the bounded abstract domain D(sys) per system (VersionDomain.tla) and the reference "
                "comparator on all pairs; each abstract version is concretised twice (identity atoms; seeded atoms with "
                "numerals up to 2^62 and random identifiers) and run through the real Parse/Compare/Canon; TLC validates "
                "every cell of the recorded matrices. distinct = abstract versions; non-trivial = not a plain dotted number",
        "samples": samples[:12],
        "per_system": stats,
        "known_findings_hit": {k: v[0] for k, v in verdict.hits.items()},
        "exhaustive": False,
        "explanation": "bounded domain enumerated completely by TLC; atoms sampled (2 concretisations)",
    }
    vlib.write_evidence(pid, tier, seed, "model_checking", cov, time.time() - t0, violations=len(verdict.violations),
                        assumptions=["TLC 1.8.0 + CommunityModules", "reference models in spec/Order.tla transcribed from the ecosystems' published "
                                     "algorithms (validated against node-semver, packaging, Maven 3.8.7 jar in the design phase)",
                                     "Maven domain per DESIGN 6.4"])
    return rc


def replay(ctx, pid):
    """Re-run the single failing case of a replay file against the current tree."""
    rp = json.load(open(ctx.replay))
    case = rp["case"]
    wdir = vlib.workdir(pid, "replay")
    vh = vlib.build_harness("vh")
    recs = case["records"]
    sysname = case["system"]
    T = identity_tables()
    dom = []
    for d in recs:
        e = dict(d)
        e["text"] = instantiate(d["text"], T)
        e["base"] = instantiate(d["base"], T)
        dom.append(e)
    # use the concrete texts of the failing pass when they are available and line up
    domf = os.path.join(wdir, "dom.ndjson")
    vlib.write_ndjson(domf, dom)
    ref_raw = os.path.join(wdir, "ref.raw")
    r = vlib.tlc("OrderMC", os.path.join(vlib.SPEC, "OrderMC_file.cfg"), wdir, env={"VERIF_DOM": domf, "VERIF_REF": ref_raw}, workers=1, timeout=300)
    vlib.tlc_must_pass(r, "OrderMC replay")
    rows = {x["i"]: x["r"] for x in vlib.read_ndjson(ref_raw)}
    ref = os.path.join(wdir, "ref.ndjson")
    vlib.write_ndjson(ref, [{"i": i, "r": rows.get(i, [])} for i in range(1, len(dom) + 1)])
    obsf = os.path.join(wdir, "obs.ndjson")
    rejf = os.path.join(wdir, "rej")
    vlib.run_harness(vh, ["order", domf, obsf, str(ctx.seed)])
    rows = vlib.read_ndjson(obsf)
    domr = list(reversed(dom))
    vlib.write_ndjson(domf + ".alt", domr)
    vlib.run_harness(vh, ["order", domf + ".alt", obsf + ".alt", str(ctx.seed)])
    alt = vlib.read_ndjson(obsf + ".alt")
    m = len(dom)
    for i in range(m):
        rows[i]["cmpalt"] = [alt[m - 1 - i]["cmp"][m - 1 - j] for j in range(m)]
        rows[i]["okalt"] = alt[m - 1 - i]["ok"]
    vlib.write_ndjson(obsf, rows)
    r = vlib.tlc("OrderTrace", os.path.join(vlib.SPEC, "OrderTrace.cfg"), wdir,
                 env={"VERIF_DOM": domf, "VERIF_OBS": obsf, "VERIF_REJ": rejf, "VERIF_REF": ref}, workers=1, timeout=300)
    vlib.tlc_must_pass(r, "OrderTrace replay")
    bad = [x for x in vlib.read_ndjson(rejf) if x["law"] in LAWS[pid] and x["law"] != "nontransitive-unlawful"]
    if bad:
        print("VIOLATION property=%s replay=%s" % (pid, ctx.replay))
        print("  still failing: %s on %s" % (sorted({b["law"] for b in bad}), [d["text"] for d in dom]))
        return 1
    print("replay: case no longer fails on the current tree (%s)" % [d["text"] for d in dom])
    return 0
