"""C15: the effective POM computed from a project lineage equals Maven's.
TLC PomMC enumerates a family of POM lineages (project, up to two ancestors, an imported BOM, profiles of every activation
kind, chained / overriding properties, built-ins, managed and duplicate declarations) and ALL property tables over three
names; the harness prints each POM as pom.xml, decodes it and runs the documented pipeline (MergeProfiles, MergeParent,
Interpolate, ProcessDependencies with a BOM getter doing the same) under a watchdog; TLC PomTrace re-evaluates the reference
model Pom.tla (Maven's model-builder semantics for the subset) on the logged input and compares dependencies and managed
dependencies field by field, in order; interpolation must terminate for every table and agree where fully resolved."""
import json, os, time
import vlib


def run(ctx):
    pid = "C15"
    t0 = time.time()
    wdir = vlib.workdir(pid, "replay" if ctx.replay else None)
    vh = vlib.build_harness("vh")
    if ctx.replay:
        cases = [json.load(open(ctx.replay))["case"]["case"]]
        states = gen = 0
    else:
        outf = os.path.join(wdir, "cases.raw")
        r = vlib.tlc("PomMC", os.path.join(vlib.SPEC, "PomMC_%s.cfg" % ctx.tier), wdir, env={"VERIF_OUT": outf}, workers=16, timeout=3000, heap="10g")
        vlib.tlc_must_pass(r, "PomMC")
        states, gen = r.distinct, r.generated
        cases = vlib.read_ndjson(outf)
    casef, obsf = os.path.join(wdir, "cases.ndjson"), os.path.join(wdir, "obs.ndjson")
    vlib.write_ndjson(casef, cases)
    vlib.run_harness(vh, ["pom", casef, obsf], timeout=3000)
    s2, g2, rej, lines = vlib.tlc_chunks("PomTrace", os.path.join(vlib.SPEC, "PomTrace.cfg"), wdir, obsf, 1500, "PomTrace", parallel=4, workers=4)
    verdict = vlib.Verdict(pid)
    for idx, x in rej:
        o = json.loads(lines[idx - 1])
        c = cases[idx - 1]
        if o["kind"] == "lineage":
            brief = {"lineage": [{k: p[k] for k in ("g", "a", "v", "parent")} for p in o["lineage"]], "deps": o["deps"], "mgmt": o["mgmt"], "err": o["err"]}
            sig = "%s|%s" % (x["law"], json.dumps([[d["a"], d["v"], d["typ"]] for d in o["deps"]])[:120])
        else:
            brief = {"table": o["table"], "got": o["got"], "err": o["err"]}
            sig = "%s|%s" % (x["law"], json.dumps(o["table"], sort_keys=True)[:160])
        if x["law"] in ("dependency-with-unresolved-placeholder-dropped", "duplicate-declaration-in-one-pom-first-kept"):
            sig = x["law"]
        verdict.fail(sig, {"law": x["law"], "case": c, "observed": brief})
    if ctx.replay:
        if verdict.violations:
            print("VIOLATION property=%s replay=%s" % (pid, ctx.replay))
            return 1
        print("replay: case no longer fails on the current tree")
        return 0
    rc = verdict.finish(wdir)
    nlin = sum(1 for c in cases if c["kind"] == "lineage")
    ntab = len(cases) - nlin
    nontriv = sum(1 for c in cases if c["kind"] == "lineage" and len(c["lineage"]) > 1) + ntab
    cov = {"states": states + s2, "transitions": gen + g2, "traces_validated_against_impl": len(lines), "evaluations": nlin + 7 * ntab,
           "distinct_nontrivial": nontriv,
           "rule": "%d lineages of the PomMC family (non-trivial = has at least one ancestor) and all %d property tables over three names x 7 query strings" % (nlin, ntab),
           "samples": [{"lineage": [{k: p[k] for k in ("g", "a", "v", "parent", "props")} for p in cases[0]["lineage"]], "expected_dependencies": cases[0]["deps"]}] if cases[0]["kind"] == "lineage" else [cases[0]],
           "known_findings_hit": {k: v[0] for k, v in verdict.hits.items()}, "exhaustive": False}
    vlib.write_evidence(pid, ctx.tier, ctx.seed, "model_checking", cov, time.time() - t0, violations=len(verdict.violations),
                        assumptions=["TLC 1.8.0", "Pom.tla transcribes Maven's model builder for the supported subset (checked against the Maven 3.8.7 model builder on hand-made lineages in the design phase)",
                                     "lineages on which Maven itself fails (property cycle reachable from a used field) are out of domain", "JDK 11.0.8, OS linux/unix/amd64 as in the library's defaults"])
    return rc
