"""C07: a Maven resolution graph obeys Maven's mediation rules.
Seeded universes over the pools of MavenModel.tla (soft versions, hard ranges, root dependencyManagement, exclusions incl.
wildcards, scopes, optional, classifiers/types, diamonds, cycles) -> real Maven resolver over a LocalClient -> TLC MavenTrace
evaluates MavenModel!MavenViolations on every recorded (universe, root, graph).
Second source of universes: MavenResolve.tla models the resolver itself (queue, requirement map kept across restarts, findMatch)
as a state machine; TLC MavenResolveMC explores it on EVERY universe of a small family around the restart path, checks
termination and the structural laws on the MODEL's graphs, and emits each universe with the model's graph; the real resolver
is run on all of them, judged by the same laws, and compared with the model (information: does the spec still describe the
code).  A separate configuration states nearest-wins on the model and is EXPECTED to fail: TLC's counterexample is the
design-level form of recorded finding C07-F25."""
import json, os, random, time
import vlib


def gen_universe(rng, tables, soft_only):
    nv, nr = len(tables["versions"]), len(tables["reqs"])
    soft = tables["soft"]
    hard = [r for r in range(1, nr + 1) if r not in soft]
    n = rng.randint(4, 9)
    arts = [("g%d" % (i % 3 + 1), "a%d" % i) for i in range(1, n + 1)]
    names = ["%s:%s" % ga for ga in arts]
    have = {nm: sorted(rng.sample(range(1, nv + 1), rng.randint(1, 4))) for nm in names}

    def mkdep(owner_is_root):
        dn = rng.choice(names)
        g, a = dn.split(":")
        if soft_only or rng.random() < 0.7:
            r = rng.choice(have[dn]) if rng.random() < 0.92 else rng.choice(soft)     # soft version, usually existing
        else:
            good = [h for h in hard if set(have[dn]) & set(tables["sat"][h - 1])]
            r = rng.choice(good) if good and rng.random() < 0.9 else rng.choice(hard)
        scope = rng.choice(["compile"] * 8 + ["runtime", "test", "provided"])
        excl = []
        if rng.random() < 0.15:
            x = rng.choice(names)
            xg, xa = x.split(":")
            excl = [rng.choice([x, xg + ":*", "*:" + xa, x])]
            if rng.random() < 0.05:
                excl = ["*:*"]
        typ = rng.choice([""] * 12 + ["jar", "war", "test-jar"])
        cls = rng.choice([""] * 14 + ["sources"])
        return {"name": dn, "g": g, "a": a, "r": r, "scope": scope, "opt": rng.random() < 0.08, "typ": typ, "cls": cls, "excl": excl, "mgmt": False}
    uni = []
    for (g, a), nm in zip(arts, names):
        vs = []
        for v in have[nm]:
            deps, used = [], set()
            for _ in range(rng.choice([0, 1, 1, 2, 2, 3])):
                d = mkdep(False)
                k = (d["name"], d["typ"], d["cls"])
                if k in used or d["name"] == nm:
                    continue
                used.add(k)
                deps.append(d)
            vs.append({"v": v, "deps": deps})
        uni.append({"name": nm, "g": g, "a": a, "versions": vs})
    rootdeps, used = [], set()
    for _ in range(rng.randint(2, 5)):
        d = mkdep(True)
        k = (d["name"], d["typ"], d["cls"])
        if k in used:
            continue
        used.add(k)
        rootdeps.append(d)
    if rng.random() < 0.5:       # dependencyManagement on the root
        for _ in range(rng.randint(1, 3)):
            dn = rng.choice(names)
            g, a = dn.split(":")
            m = {"name": dn, "g": g, "a": a, "r": rng.choice(have[dn]), "scope": "compile", "opt": False, "typ": "", "cls": "", "excl": [], "mgmt": True}
            if (dn, "", "") not in {(x["name"], x["typ"], x["cls"]) for x in rootdeps if x["mgmt"]}:
                rootdeps.append(m)
    uni.append({"name": "g0:root", "g": "g0", "a": "root", "versions": [{"v": 1, "deps": rootdeps}]})
    return uni, {"name": "g0:root", "v": 1}


def run(ctx):
    pid = "C07"
    t0 = time.time()
    wdir = vlib.workdir(pid, "replay" if ctx.replay else None)
    vh = vlib.build_harness("vh")
    tablesf = os.path.join(wdir, "tables.json")
    r0 = vlib.tlc("MavenTables", os.path.join(vlib.SPEC, "MavenTables.cfg"), wdir, env={"VERIF_OUT": tablesf}, workers=1, timeout=300)
    vlib.tlc_must_pass(r0, "MavenTables")
    tables = json.load(open(tablesf))
    tables["sat"] = [sorted(s) for s in tables["sat"]]
    tables["soft"] = sorted(tables["soft"])
    if ctx.replay:
        c = json.load(open(ctx.replay))["case"]
        cases = [{"universe": c["universe"], "root": c["root"], "softonly": c.get("softonly", False)}]
    else:
        rng = random.Random(ctx.seed * 32452843 + 5)
        cases = []
        for k in range(12000 if ctx.tier == "quick" else 150000):
            uni, root = gen_universe(rng, tables, soft_only=(k % 3 == 0))
            cases.append({"universe": uni, "root": root, "softonly": k % 3 == 0})
    mr_states = mr_gen = nmodel = 0
    design_cex = None
    if not ctx.replay:
        modelf = os.path.join(wdir, "model_cases.raw")
        rm = vlib.tlc("MavenResolveMC", os.path.join(vlib.SPEC, "MavenResolveMC_%s.cfg" % ctx.tier), wdir, env={"VERIF_OUT": modelf}, workers=12, timeout=2400, heap="10g")
        vlib.tlc_must_pass(rm, "MavenResolveMC (termination and structural laws on the algorithm model)")
        mr_states, mr_gen = rm.distinct, rm.generated
        mcases = vlib.read_ndjson(modelf)
        nmodel = len(mcases)
        cases = mcases + cases
        rn = vlib.tlc("MavenResolveMC", os.path.join(vlib.SPEC, "MavenResolveMC_nearest.cfg"), wdir, env={"VERIF_OUT": os.path.join(wdir, "unused.raw")}, workers=1, timeout=1200, heap="6g")
        if rn.error:
            raise vlib.Trouble("MavenResolveMC_nearest: %s" % rn.error)
        design_cex = "TLC violates DoneNearest on the algorithm model after %d distinct states (expected: C07-F25 exists at design level)" % rn.distinct if rn.violation else \
                     "DoneNearest holds on the algorithm model (the design-level form of C07-F25 is gone)"
    seeded_with_model = 0
    if not ctx.replay:
        # what the documented algorithm (MavenResolve.tla) returns on every SEEDED universe too: a nearest-wins deviation is the
        # recorded finding C07-F25 exactly when the real graph is the one the restart algorithm, as modelled, produces
        seededf, seedmodf = os.path.join(wdir, "seeded_cases.ndjson"), os.path.join(wdir, "seeded_model.raw")
        seeded = cases[nmodel:]
        # one single-threaded TLC per slice (lines longer than the output buffer are not written atomically by parallel workers)
        import concurrent.futures as cf
        nparts = 14
        bounds = [(k * len(seeded)) // nparts for k in range(nparts + 1)]

        def one(k):
            cf_, of_ = "%s.%02d" % (seededf, k), "%s.%02d" % (seedmodf, k)
            vlib.write_ndjson(cf_, [{"universe": c["universe"]} for c in seeded[bounds[k]:bounds[k + 1]]])
            r = vlib.tlc("MavenResolveMC", os.path.join(vlib.SPEC, "MavenResolveMC_file.cfg"), wdir, env={"VERIF_OUT": of_, "VERIF_CASES": cf_}, workers=1, timeout=3000, heap="3g")
            vlib.tlc_must_pass(r, "MavenResolveMC on the seeded universes (slice %d)" % k)
            return r, vlib.read_ndjson(of_)
        models = []
        with cf.ThreadPoolExecutor(max_workers=nparts) as ex:
            for r, ms in ex.map(one, [k for k in range(nparts) if bounds[k + 1] > bounds[k]]):
                mr_states += r.distinct
                mr_gen += r.generated
                models += ms
        canon = lambda u: json.dumps(u, sort_keys=True)
        bymodel = {canon(m["universe"]): m["model"] for m in models}
        for c in seeded:
            m = bymodel.get(canon(c["universe"]))
            if m is not None:
                c["model"] = m
                seeded_with_model += 1
    step_info = None
    if not ctx.replay:
        step_info = vlib.step_traces(vh, "maven", "MavenStepTrace", "MavenStepTrace.cfg", wdir, tablesf, mcases if ctx.tier == "quick" else mcases[::8], "Maven")
    casef = os.path.join(wdir, "cases.ndjson")
    obsf = os.path.join(wdir, "obs.ndjson")
    vlib.run_harness_split(vh, "maven", tablesf, cases, casef, obsf, nparts=1 if ctx.replay else 6)
    states, gen, rej, lines = vlib.tlc_chunks("MavenTrace", os.path.join(vlib.SPEC, "MavenTrace.cfg"), wdir, obsf, 2000 if ctx.tier == "quick" else 4000,
                                              "MavenTrace", parallel=4, workers=4)
    verdict = vlib.Verdict(pid)
    resolved = nontrivial = errs = allsoft = 0
    for ln in lines:
        o = json.loads(ln)
        if o.get("unmapped"):
            raise vlib.Trouble("harness could not express a result in pool indices: %s" % o["unmapped"])
        if not o["ok"]:
            errs += 1
            continue
        resolved += 1
        if len(o["graph"]["nodes"]) >= 4:
            nontrivial += 1
    abandoned = sum(1 for ln in lines if "did not return within" in ln)
    if abandoned:
        print("NOTE: %d resolutions did not return within 60 s and were abandoned (a matter for C04, totality; not judged here)" % abandoned)
    model_diff = []
    for idx, x in rej:
        o = json.loads(lines[idx - 1])
        g = o["graph"]
        if x["law"].startswith("info-"):
            model_diff.append({"law": x["law"], "universe": o["universe"], "graph": g, "model": o.get("model")})
            continue
        detail = {"k": x["k"]}
        if x["k"] and x["law"] in ("two-versions-of-one-artifact", "range-edge-outside-range", "non-root-test-optional-provided-followed",
                                   "excluded-artifact-reached", "management-not-applied", "management-applied-to-root-declaration"):
            e = g["edges"][x["k"] - 1]
            detail = {"edge": e, "from": g["nodes"][e["f"] - 1], "to": g["nodes"][e["t"] - 1], "requirement": tables["reqs"][e["r"] - 1]}
        elif x["k"]:
            detail = {"node": g["nodes"][x["k"] - 1], "index": x["k"]}
        verdict.fail(x["law"] + "|" + json.dumps(detail, sort_keys=True)[:160],
                     {"law": x["law"], "universe": o["universe"], "root": o["root"], "softonly": o["softonly"], "detail": detail, "graph": g})
    if ctx.replay:
        if verdict.violations:
            print("VIOLATION property=%s replay=%s" % (pid, ctx.replay))
            return 1
        print("replay: case no longer fails on the current tree")
        return 0
    rc = verdict.finish(wdir)
    if model_diff:
        json.dump(model_diff[:20], open(os.path.join(wdir, "model_divergence.json"), "w"), indent=1)
        print("NOTE: the real resolver differs from the algorithm model MavenResolve.tla on %d universes (of %d family universes and the seeded ones) (not a verdict; see %s)"
              % (len(model_diff), nmodel, os.path.join(wdir, "model_divergence.json")))
    s = next(json.loads(l) for l in lines if json.loads(l)["ok"])
    cov = {"states": states + r0.distinct + mr_states, "transitions": gen + r0.generated + mr_gen, "traces_validated_against_impl": resolved, "evaluations": len(lines),
           "distinct_nontrivial": nontrivial,
           "rule": "every universe of the MavenResolveMC family (TLC-enumerated, with the algorithm model's graph) + seeded Maven universes over the pools of MavenModel.tla (every third one soft-only); "
                   "non-trivial = resolved graph with >= 4 nodes; %d resolutions ended in a resolver error (not judged)" % errs,
           "samples": [{"root": s["root"], "artifacts": len(s["universe"]), "graph": s["graph"]}],
           "resolutions_abandoned_after_60s": abandoned, "known_findings_hit": {k: v[0] for k, v in verdict.hits.items()}, "exhaustive": False,
           "algorithm_model": {"family_universes": nmodel, "states": mr_states, "real_resolver_differs_on": len(model_diff), "nearest_wins_on_the_model": design_cex, "step_traces": step_info, "seeded_universes_with_model_result": seeded_with_model}}
    vlib.write_evidence(pid, ctx.tier, ctx.seed, "model_checking", cov, time.time() - t0, violations=len(verdict.violations),
                        assumptions=["TLC 1.8.0", "VersionRange semantics and ComparableVersion order from Ranges.tla / Order.tla", "single registry",
                                     "nearest-wins is judged per artifact key that no declaration of the universe constrains with a range; the restart staleness of the clean tree is modelled as named deviations (C07-F25)"])
    return rc
