import order_common


def run(ctx):
    return order_common.run(ctx, "C01", "5-C01")
