"""C04: parsing and matching entry points are total: errors, never panics or hangs.
Totality.tla is the call monitor (idle -> called -> returned value | error; no other outcome is a behaviour).  TLC TotalityMC
enumerates EVERY word over the 34-symbol class alphabet up to MaxLen and EVERY text of up to MaxLines lines built from ten
line templates x indentation depths (grammar-derived inputs of the schema / graph text formats); the harness feeds each (and seeded one-mistake-away
mutations of valid inputs: deletions, swaps, invalid UTF-8, NUL, very long tokens, deep nesting, long lists; and a deep phase
with inputs nested / chained millions of levels) to every entry point of every system, each call under recover and a watchdog,
in child processes whose death is attributed through a progress file; TLC TotalityTrace validates every logged outcome."""
import concurrent.futures as cf
import json, os, subprocess, time
import vlib

PAR = 16


def run_phase(vh, wdir, tag, wordsfile, shard, seed, nmut, deep=False, timeout=3000):
    """One harness child (inputs: the lines of wordsfile belonging to shard "k/n").  Returns (records, death) where death is
    None or an observation record for the call in flight when the process died."""
    of, pf = [os.path.join(wdir, "%s.%s" % (tag, x)) for x in ("obs", "prog")]
    if os.path.exists(of):
        os.remove(of)
    args = [vh, "total", wordsfile, of, str(seed), str(nmut), pf] + (["deep"] if deep else [])
    try:
        p = subprocess.run(args, stdout=subprocess.PIPE, stderr=subprocess.PIPE, text=True, errors="replace", timeout=timeout, env=vlib.env_with({"VERIF_SHARD": shard}))
    except subprocess.TimeoutExpired:
        raise vlib.Trouble("harness phase %s exceeded %ss (machinery limit, no verdict)" % (tag, timeout))
    if p.returncode == 0:
        return [json.loads(l) for l in open(of)], None
    err = p.stderr
    fatal = [l for l in err.splitlines() if l.startswith(("fatal error:", "panic:", "runtime: goroutine stack exceeds"))]
    if not fatal or "out of memory" in err[:4000]:
        raise vlib.Trouble("harness phase %s exited %s without a Go fatal error\n%s" % (tag, p.returncode, err[-3000:]))
    entry, sys_, inp = (open(pf).read().rstrip("\n").split("|", 2) + ["", "", ""])[:3]
    frames = [l.split("(")[0] for l in err.splitlines() if l.startswith("deps.dev/")][:3]
    return [], {"entry": entry, "sys": sys_, "calls": 1, "slow": 0, "abandoned": 0, "skipped": 0, "maxms": 0, "maxlen": len(inp),
                "outcomes": [{"outcome": "process died: %s (in %s)" % (fatal[0][:100], ", ".join(frames)), "count": 1, "witness": inp}]}


def merge(all_recs):
    m = {}
    for r in all_recs:
        k = (r["entry"], r["sys"])
        o = m.get(k)
        if o is None:
            m[k] = {**r, "outcomes": [dict(x) for x in r["outcomes"]]}
            continue
        for f in ("calls", "slow", "abandoned", "skipped"):
            o[f] += r.get(f, 0)
        o["maxms"] = max(o["maxms"], r["maxms"])
        o["maxlen"] = max(o["maxlen"], r["maxlen"])
        for x in r["outcomes"]:
            for y in o["outcomes"]:
                if y["outcome"] == x["outcome"]:
                    y["count"] += x["count"]
                    break
            else:
                o["outcomes"].append(dict(x))
    return [m[k] for k in sorted(m)]


def run(ctx):
    pid = "C04"
    t0 = time.time()
    wdir = vlib.workdir(pid, "replay" if ctx.replay else None)
    vh = vlib.build_harness("vh")
    recs, deaths = [], []
    states = gen = 0
    if ctx.replay:
        c = json.load(open(ctx.replay))["case"]
        w = c["witness"]
        if w.endswith("bytes)") and "...(" in w:
            raise vlib.Trouble("the witness of this case is abbreviated (long generated input); re-run the check instead")
        p = subprocess.run([vh, "total1", os.path.join(wdir, "replay.obs"), w], stdout=subprocess.PIPE, stderr=subprocess.PIPE, text=True, errors="replace", env=vlib.env_with(None))
        if p.returncode == 0:
            recs = [json.loads(l) for l in open(os.path.join(wdir, "replay.obs"))]
        else:
            recs = [{"entry": c["entry"], "sys": c["sys"], "calls": 1, "slow": 0, "abandoned": 0, "skipped": 0, "maxms": 0, "maxlen": 0,
                     "outcomes": [{"outcome": "process died: " + (p.stderr.splitlines() or ["?"])[0][:100], "count": 1, "witness": w}]}]
        recs = [r for r in recs if r["entry"] == c["entry"] and r["sys"] == c["sys"]]
        nwords = nmut = 0
    else:
        outf = os.path.join(wdir, "words.raw")
        r = vlib.tlc("TotalityMC", os.path.join(vlib.SPEC, "TotalityMC_%s.cfg" % ctx.tier), wdir, env={"VERIF_OUT": outf}, workers=8, timeout=2400, heap="8g")
        vlib.tlc_must_pass(r, "TotalityMC")
        states, gen = r.distinct, r.generated
        with open(outf) as f:
            nwords = sum(1 for _ in f)
        emptyf = os.path.join(wdir, "empty.raw")
        open(emptyf, "w").close()
        nmut = 4000 if ctx.tier == "quick" else 320000
        jobs = []
        with cf.ThreadPoolExecutor(max_workers=PAR + 1) as ex:
            for k in range(PAR):
                jobs.append(ex.submit(run_phase, vh, wdir, "w%02d" % k, outf, "%d/%d" % (k, PAR), 0, 0))
                jobs.append(ex.submit(run_phase, vh, wdir, "m%02d" % k, emptyf, "0/1", ctx.seed * 1000 + k, nmut // PAR))
            jobs.append(ex.submit(run_phase, vh, wdir, "deep", emptyf, "0/1", 0, 0, True))
            for j in jobs:
                rr, d = j.result()
                recs += rr
                if d:
                    deaths.append(d)
    obs = merge(recs + deaths)
    obsf = os.path.join(wdir, "obs.ndjson")
    vlib.write_ndjson(obsf, obs)
    s2, g2, rej, lines = vlib.tlc_chunks("TotalityTrace", os.path.join(vlib.SPEC, "TotalityTrace.cfg"), wdir, obsf, 5000, "TotalityTrace", parallel=1, workers=2)
    verdict = vlib.Verdict(pid)
    for idx, x in rej:
        o = obs[idx - 1]
        oc = o["outcomes"][x["k"] - 1]
        # signature: entry point, system and the outcome class (panic message without addresses)
        sig = "%s|%s|%s" % (o["entry"], o["sys"], oc["outcome"][:60])
        verdict.fail(sig, {"entry": o["entry"], "sys": o["sys"], "outcome": oc["outcome"], "count": oc["count"], "witness": oc["witness"]})
    if ctx.replay:
        if verdict.violations:
            print("VIOLATION property=%s replay=%s" % (pid, ctx.replay))
            return 1
        print("replay: case no longer fails on the current tree")
        return 0
    rc = verdict.finish(wdir)
    calls = sum(o["calls"] for o in obs)
    slowest = sorted(obs, key=lambda o: -o["maxms"])[:3]
    cov = {"states": states + s2, "transitions": gen + g2, "traces_validated_against_impl": len(obs), "evaluations": calls,
           "distinct_nontrivial": nwords + nmut,
           "rule": "every word over the 34-symbol alphabet up to the tier's MaxLen and every text of up to MaxLines lines (10 line templates x depths) of the two line-oriented formats (%d inputs, TLC-enumerated) + %d seeded mutations of valid inputs + the deep phase, each fed to %d (entry point, system) pairs; "
                   "non-trivial = distinct input string; an input counts once however many entry points see it" % (nwords, nmut, len(obs)),
           "samples": [{"entry": o["entry"], "sys": o["sys"], "calls": o["calls"], "outcomes": {x["outcome"]: x["count"] for x in o["outcomes"]}} for o in obs[:2]],
           "slowest_calls_ms": [{"entry": o["entry"], "sys": o["sys"], "maxms": o["maxms"], "maxlen": o["maxlen"]} for o in slowest],
           "calls_past_soft_limit": sum(o["slow"] for o in obs), "deep_phase_abandoned_no_verdict": sum(o["abandoned"] for o in obs), "calls_skipped_after_a_hang": sum(o.get("skipped", 0) for o in obs),
           "known_findings_hit": {k: v[0] for k, v in verdict.hits.items()}, "exhaustive": False}
    vlib.write_evidence(pid, ctx.tier, ctx.seed, "exploration", cov, time.time() - t0, violations=len(verdict.violations),
                        assumptions=["TLC 1.8.0", "a call is judged hung only if it has not returned after 90 s on an input of at most ~40 KB (slowest returning call in evidence); the deep phase (inputs of up to 16 MB) judges only process death",
                                     "ParseWheelName's cross product of dotted tags is cubic by design (as in pip): one long dotted token is put into all three tags only when it has at most 60 dots"])
    return rc
