import client_common


def run(ctx):
    return client_common.run(ctx, "C14")
