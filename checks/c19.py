"""C19: attribute sets are values with a faithful text form.
TLC AttrMC enumerates every set/flag/clone history up to the bound over three slots; vh attr executes each on real dep.Type
and version.AttrSet values (three slots per family) logging the full content of every slot, Compare/Equal matrices and the
schema-text round trip after every operation, then Compare matrices over pools of reached values; TLC AttrTrace consumes each
history as AttrSets actions (the content of EVERY slot must equal the model after every step) and checks the order laws."""
import json, os, random, time
import vlib

FLAGS = ["f1", "f2", "f3"]
KEYS = ["k1", "k2", "k3"]
VALS = ["", "a", "b c", "q\"x"]


def seeded(seed, n):
    rng = random.Random(seed * 7907 + 3)
    out = []
    for _ in range(n):
        ops = []
        for _ in range(rng.randint(5, 40)):
            r = rng.random()
            slot = rng.randint(1, 3)
            if r < 0.45:
                ops.append({"op": "set", "slot": slot, "key": rng.choice(KEYS), "val": rng.choice(VALS), "flag": "", "src": 0})
            elif r < 0.7:
                ops.append({"op": "flag", "slot": slot, "key": "", "val": "", "flag": rng.choice(FLAGS), "src": 0})
            else:
                src = rng.choice([s for s in (1, 2, 3) if s != slot])
                ops.append({"op": "clone", "slot": slot, "key": "", "val": "", "flag": "", "src": src})
        out.append({"ops": ops})
    return out


def run(ctx):
    pid = "C19"
    t0 = time.time()
    wdir = vlib.workdir(pid, "replay" if ctx.replay else None)
    vh = vlib.build_harness("vh")
    verdict = vlib.Verdict(pid)
    states = gen = 0
    if ctx.replay:
        hists = [json.load(open(ctx.replay))["case"]["history"]]
    else:
        outf = os.path.join(wdir, "hists.raw")
        r = vlib.tlc("AttrMC", os.path.join(vlib.SPEC, "AttrMC_%s.cfg" % ctx.tier), wdir, env={"VERIF_OUT": outf}, workers=12, timeout=3000, heap="8g")
        vlib.tlc_must_pass(r, "AttrMC")
        states, gen = r.distinct, r.generated
        hists = vlib.read_ndjson(outf) + seeded(ctx.seed, 150 if ctx.tier == "quick" else 3000)
    hf = os.path.join(wdir, "hists.ndjson")
    obsf = os.path.join(wdir, "obs.ndjson")
    vlib.write_ndjson(hf, hists)
    vlib.run_harness(vh, ["attr", hf, obsf, str(ctx.seed)], timeout=3000)
    s2, g2, rej, lines = vlib.tlc_chunks("AttrTrace", os.path.join(vlib.SPEC, "AttrTrace.cfg"), wdir, obsf, 4000, "AttrTrace")
    states += s2
    gen += g2
    steps = nontrivial = 0
    for i, ln in enumerate(lines):
        if '"kind":"hist"' in ln[:20]:
            h = hists[i]
            steps += len(h["ops"])
            if any(o["op"] == "clone" for o in h["ops"][:-1]):
                nontrivial += 1
    for idx, x in rej:
        o = json.loads(lines[idx - 1])
        if o["kind"] == "hist":
            h = hists[idx - 1]
            sig = "%s|%s|%s" % (x["law"], x["fam"], json.dumps(h["ops"][:x["k"]], sort_keys=True, separators=(",", ":"))[-200:])
            verdict.fail(sig, {"law": x["law"], "family": x["fam"], "step": x["k"], "history": h,
                               "observed": o["steps"][x["k"] - 1]["dep" if x["fam"] == "dep" else "ver"]})
        else:
            verdict.fail("%s|%s|pool" % (x["law"], x["fam"]), {"law": x["law"], "family": x["fam"], "value": o["pool"][x["k"] - 1], "history": {"ops": []}})
    if ctx.replay:
        if verdict.violations:
            print("VIOLATION property=%s replay=%s" % (pid, ctx.replay))
            return 1
        print("replay: case no longer fails on the current tree")
        return 0
    rc = verdict.finish(wdir)
    sample = json.loads(lines[0])
    cov = {"states": states, "transitions": gen, "traces_validated_against_impl": len(lines), "evaluations": steps,
           "distinct_nontrivial": nontrivial,
           "rule": "every history of set/flag/clone operations over 3 slots up to the bound of AttrMC_*.cfg (TLC) plus seeded histories of up to "
                   "40 operations; values incl. empty, spaced and quoted; non-trivial = a clone followed by further operations",
           "samples": [{"ops": hists[0]["ops"], "last_observation_dep": sample["steps"][-1]["dep"]["slots"]}],
           "known_findings_hit": {k: v[0] for k, v in verdict.hits.items()}, "exhaustive": False}
    vlib.write_evidence(pid, ctx.tier, ctx.seed, "model_checking", cov, time.time() - t0, violations=len(verdict.violations),
                        assumptions=["TLC 1.8.0", "text round trip through deptest.ParseString and versiontest.ParseSingle (the parsers behind schema.ParseResolve / schema.New) with a writer following the documented syntax",
                                     "version.AttrSet has no public Compare: only Equal is judged for that family"])
    return rc
