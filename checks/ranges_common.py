"""C03 / C09 / C11: requirement matching vs reference, set algebra laws, set text round trip.

Pipeline per system: TLC RangesMC (enumerate requirement catalogue, print it, evaluate the reference Sat on the
whole candidate universe) -> vh ranges (real ParseConstraint / Match / Set ops) -> TLC RangesTrace (set equations).
"""
import json, os, time, concurrent.futures as cf
import vlib

SYS = {"C03": ["NPM", "Cargo", "PyPI", "Maven"], "C09": ["Default", "NPM", "Cargo", "Go"],
       "C11": ["Default", "NPM", "Cargo", "Go", "NuGet"]}
LAWS = {
    "C03": {"should-match", "should-not-match", "rejected", "match-string-differs"},
    "C09": {"union-error", "union-membership", "empty-union-matches", "union-order", "intersect-error",
            "intersect-membership-release", "intersect-membership-prerelease-inclusive", "empty-intersection-matches",
            "intersect-order", "operand-modified", "empty-set-matches"},
    "C11": {"set-text-unparsable", "set-text-changes", "roundtrip-match-differs"},
}


def run_system(sysname, tier, wdir, vh, workers):
    out = {"sys": sysname, "states": 0, "generated": 0, "traces": 0}
    uni = os.path.join(wdir, "uni_%s.ndjson" % sysname)
    cat_raw = os.path.join(wdir, "cat_%s.raw" % sysname)
    cat = os.path.join(wdir, "cat_%s.ndjson" % sysname)
    obs = os.path.join(wdir, "obs_%s.ndjson" % sysname)
    rej = os.path.join(wdir, "rej_%s" % sysname)
    for f in (cat_raw, rej):
        if os.path.exists(f):
            os.remove(f)
    r = vlib.tlc("RangesMC", os.path.join(vlib.SPEC, "RangesMC_%s_%s.cfg" % (sysname, tier)), wdir,
                 env={"VERIF_UNI": uni, "VERIF_CAT": cat_raw}, workers=workers, timeout=2400)
    vlib.tlc_must_pass(r, "RangesMC " + sysname)
    out["states"] += r.distinct
    out["generated"] += r.generated
    rows = sorted(vlib.read_ndjson(cat_raw), key=lambda x: x["id"])
    if [x["id"] for x in rows] != list(range(1, len(rows) + 1)):
        raise vlib.Trouble("catalogue ids not contiguous for " + sysname)
    vlib.write_ndjson(cat, rows)
    vlib.run_harness(vh, ["ranges", sysname, uni, cat, obs], timeout=2400)
    r = vlib.tlc("RangesTrace", os.path.join(vlib.SPEC, "RangesTrace.cfg"), wdir,
                 env={"VERIF_SYS": sysname, "VERIF_UNI": uni, "VERIF_CAT": cat, "VERIF_OBS": obs, "VERIF_REJ": rej},
                 workers=workers, timeout=2400)
    vlib.tlc_must_pass(r, "RangesTrace " + sysname)
    out["states"] += r.distinct
    out["generated"] += r.generated
    out["traces"] = 1
    out["uni"] = vlib.read_ndjson(uni)
    out["cat"] = rows
    out["rej"] = vlib.read_ndjson(rej)
    return out


def signature(sysname, res, rec):
    cat, uni = res["cat"], res["uni"]
    law = rec["law"]

    def ct(k):
        return cat[k - 1]["text"] if 1 <= k <= len(cat) else "#%s" % k

    def vt(k):
        return uni[k - 1]["text"] if 1 <= k <= len(uni) else "-"
    if law in ("should-match", "should-not-match", "match-string-differs", "roundtrip-match-differs"):
        return "%s|%s|%s|%s" % (law, sysname, ct(rec["a"]), vt(rec["b"]))
    if rec["b"] == 0:
        return "%s|%s|%s|%s" % (law, sysname, ct(rec["a"]), vt(rec["detail"]))
    return "%s|%s|%s|%s|%s" % (law, sysname, ct(rec["a"]), ct(rec["b"]), vt(rec["detail"]))


def run(ctx, pid):
    t0 = time.time()
    if ctx.replay:
        return replay(ctx, pid)
    wdir = vlib.workdir(pid)
    vh = vlib.build_harness("vh")
    with cf.ThreadPoolExecutor(max_workers=5) as ex:
        results = [f.result() for f in [ex.submit(run_system, s, ctx.tier, wdir, vh, 4) for s in SYS[pid]]]
    verdict = vlib.Verdict(pid)
    evaluations = 0
    nontrivial = set()
    samples, stats = [], {}
    for res in results:
        for rec in res["rej"]:
            if rec["law"] == "stats":
                st = rec["stats"]
                stats[res["sys"]] = st
                if pid == "C03":
                    evaluations += st["ref"] * st["universe"]
                elif pid == "C09":
                    evaluations += st["pairs"] * st["universe"] * 2
                else:
                    evaluations += st["parsed"] * st["universe"]
                continue
            if rec["law"] not in LAWS[pid]:
                continue
            sig = signature(res["sys"], res, rec)
            case = {"system": res["sys"], "law": rec["law"],
                    "requirements": [res["cat"][k - 1]["text"] for k in (rec["a"], rec["b"]) if rec["law"] not in ("should-match", "should-not-match", "match-string-differs", "roundtrip-match-differs") and 1 <= k <= len(res["cat"])] or [res["cat"][rec["a"] - 1]["text"]],
                    "candidate": (res["uni"][rec["b"] - 1]["text"] if rec["law"] in ("should-match", "should-not-match", "match-string-differs", "roundtrip-match-differs") else (res["uni"][rec["detail"] - 1]["text"] if rec["detail"] else None))}
            verdict.fail(sig, case)
        for c in res["cat"]:
            t = c["text"]
            if pid == "C03" and not c["ref"]:
                continue
            if pid == "C09" and not c["pair"]:
                continue
            if any(ch in t for ch in "<>^~*xX|,-[(") or " " in t:
                nontrivial.add((res["sys"], t))
        for c in res["cat"][:2]:
            samples.append({"system": res["sys"], "requirement": c["text"],
                            "reference_matches": [res["uni"][i - 1]["text"] for i in c["expect"][:6]] if c["ref"] else None})
    rc = verdict.finish(wdir)
    cov = {"states": sum(r["states"] for r in results), "transitions": sum(r["generated"] for r in results),
           "traces_validated_against_impl": sum(r["traces"] for r in results),
           "evaluations": evaluations, "distinct_nontrivial": len(nontrivial),
           "rule": "TLC enumerates the requirement catalogue of each system (RangesMC.tla: every operator x partial version, "
                   "AND / OR / hyphen combinations, PyPI clause lists, Maven restriction unions) and the complete candidate universe "
                   "(a.b.c[-pre], a,b,c in 0..3, 5 prerelease shapes = 320 versions; PyPI 63 final releases; Maven pool of 18); "
                   "distinct = requirement texts; non-trivial = uses an operator, wildcard, range or list",
           "samples": samples[:10], "per_system": stats, "known_findings_hit": {k: v[0] for k, v in verdict.hits.items()},
           "exhaustive": False}
    vlib.write_evidence(pid, ctx.tier, ctx.seed, "model_checking", cov, time.time() - t0, violations=len(verdict.violations),
                        assumptions=["TLC 1.8.0 + CommunityModules", "Ranges.tla transcribes node-semver, the semver crate's eval.rs, packaging's "
                                     "SpecifierSet and Maven's VersionRange; npm and PyPI models cross-checked against the real tools (ref/)"])
    return rc


def replay(ctx, pid):
    """Re-run one failing requirement (pair) against the current tree through the same pipeline on a tiny catalogue."""
    rp = json.load(open(ctx.replay))
    case = rp["case"]
    sysname = case["system"]
    wdir = vlib.workdir(pid, "replay")
    vh = vlib.build_harness("vh")
    res = run_system(sysname, "quick", wdir, vh, 4)
    want = set(case["requirements"])
    bad = []
    for rec in res["rej"]:
        if rec["law"] != case["law"]:
            continue
        texts = {res["cat"][k - 1]["text"] for k in (rec["a"], rec["b"]) if 1 <= k <= len(res["cat"])}
        if want <= texts or texts <= want:
            bad.append(rec)
    if bad:
        print("VIOLATION property=%s replay=%s" % (pid, ctx.replay))
        print("  still failing: %s %s" % (case["law"], case["requirements"]))
        return 1
    print("replay: case no longer fails on the current tree: %s %s" % (case["law"], case["requirements"]))
    return 0
