"""C12 / C14: requirement matching over version lists; the in-memory client.

TLC ClientMC (mode match: every list up to MaxList per system; mode client: every AddVersion history up to MaxHist on
the map-based reference model, invariants checked) -> vh client (real MatchRequirement / SortVersions / LocalClient under
every permutation / every history step) -> TLC ClientTrace (MatchOK / SortOK predicates; histories consumed as spec
actions with the logged observation compared at every step).  Seeded pass: longer lists and histories (<= 60 adds).
"""
import json, os, random, time
import vlib

LAWS = {"C12": {"permutation-dependent", "wrong-result", "client-insertion-order-dependent", "client-wrong-result",
                "input-list-corrupted", "sort-wrong", "client-list-wrong", "sort-classes-permutation-dependent"},
        "C14": {"package-known-mismatch", "versions-list-content", "versions-list-order", "version-lookup-presence",
                "version-lookup-attributes", "not-found-error-kind", "requirements-presence", "requirements-content"}}
MODE = {"C12": "match", "C14": "client"}


def seeded_cases(pid, seed, tier, mc_cases):
    rng = random.Random(seed * 104729 + 7)
    pools, deplists, reqs = {}, {}, {}
    for c in mc_cases:
        if c["kind"] == "match":
            for e in c["entries"]:
                pools.setdefault(c["sys"], {})[e["v"]] = e["text"]
            reqs[c["sys"]] = c["reqs"]
        else:
            for op in c["ops"]:
                pools.setdefault(c["sys"], {})[op["v"]] = op["text"]
                deplists[op["d"]] = op["deps"]
    out = []
    n = 60 if tier == "quick" else 600
    if pid == "C12":
        for _ in range(n):
            sysn = rng.choice(sorted(pools))
            vs = sorted(pools[sysn])
            k = rng.randint(5, len(vs))
            chosen = rng.sample(vs, k)
            latest = rng.choice(chosen + [None])
            beta = rng.choice(chosen + [None])
            ents = [{"v": v, "a": 2 if v == latest else 3 if v == beta else 1, "text": pools[sysn][v]} for v in chosen]
            out.append({"kind": "match", "sys": sysn, "entries": ents, "reqs": reqs[sysn]})
    else:
        # the client model run only uses two versions per system; the seeded histories use every pool element the
        # match run printed (read from its output when available) and all attribute variants
        for _ in range(n):
            sysn = rng.choice(sorted(pools))
            vs = sorted(pools[sysn])
            ops = []
            holder = {}      # dist-tags are unique per package: at most one version of a package carries "latest"
            for _ in range(rng.randint(8, 60)):
                v = rng.choice(vs)
                d = rng.choice(sorted(deplists))
                pkg = rng.choice(["p", "q"])
                a = rng.choice([1, 1, 2, 3, 4])
                dele = rng.random() < 0.15
                if a == 2 and holder.get(pkg) not in (None, v):
                    a = 1
                if not dele:
                    if a == 2:
                        holder[pkg] = v
                    elif holder.get(pkg) == v:
                        holder[pkg] = None
                ops.append({"pkg": pkg, "v": v, "text": pools[sysn][v], "a": a, "del": dele, "d": d, "deps": deplists[d]})
            out.append({"kind": "hist", "sys": sysn, "ops": ops})
    return out


def describe(obs_rec, rec):
    if obs_rec["kind"] in ("match", "sort"):
        return {"system": obs_rec["sys"], "law": rec["law"], "requirement": obs_rec.get("req"),
                "entries": obs_rec["entries"], "results": obs_rec.get("outs"), "client_results": obs_rec.get("lcouts")}
    k = rec["detail"]
    return {"system": obs_rec["sys"], "law": rec["law"], "step": k,
            "ops": [{x: s["op"][x] for x in ("pkg", "text", "v", "a", "del", "d")} for s in obs_rec["steps"][:k]],
            "observed": {"pkgs": obs_rec["steps"][k - 1]["pkgs"], "keys": obs_rec["steps"][k - 1]["keys"]}}


def signature(obs_rec, rec):
    if obs_rec["kind"] in ("match", "sort"):
        ents = ",".join("%d/%d" % (e["v"], e["a"]) for e in sorted(obs_rec["entries"], key=lambda e: e["v"]))
        return "%s|%s|%s|%s" % (rec["law"], obs_rec["sys"], obs_rec.get("req", "sort"), ents)
    k = rec["detail"]
    ops = ";".join("%s/%d/%d/%s/%d" % (s["op"]["pkg"], s["op"]["v"], s["op"]["a"], "D" if s["op"]["del"] else "-", s["op"]["d"]) for s in obs_rec["steps"][:k])
    return "%s|%s|%s" % (rec["law"], obs_rec["sys"], ops[-120:])


def validate(pid, wdir, vh, cases, tag, workers=12):
    casef = os.path.join(wdir, "cases_%s.ndjson" % tag)
    obsf = os.path.join(wdir, "obs_%s.ndjson" % tag)
    rejf = os.path.join(wdir, "rej_%s" % tag)
    vlib.write_ndjson(casef, cases)
    if os.path.exists(rejf):
        os.remove(rejf)
    vlib.run_harness(vh, ["client", casef, obsf], timeout=2400)
    cfg = "ClientTrace_match.cfg" if pid == "C12" else "ClientTrace_hist.cfg"
    st, gn, rej, lines = vlib.tlc_chunks("ClientTrace", os.path.join(vlib.SPEC, cfg), wdir, obsf, 6000 if pid == "C12" else 1500,
                                         "ClientTrace " + tag, workers=max(2, workers // 3))
    obs = [json.loads(l) for l in lines]
    out = []
    for idx, x in rej:
        x = dict(x)
        x["n"] = idx
        out.append(x)

    class R:
        distinct, generated = st, gn
    return R, obs, out


def run(ctx, pid):
    t0 = time.time()
    wdir = vlib.workdir(pid, "replay" if ctx.replay else None)
    vh = vlib.build_harness("vh")
    verdict = vlib.Verdict(pid)
    if ctx.replay:
        case = json.load(open(ctx.replay))["case"]
        r, obs, rej = validate(pid, wdir, vh, [case["mc_case"]], "replay", workers=2)
        bad = [x for x in rej if x["law"] in LAWS[pid]]
        if bad:
            print("VIOLATION property=%s replay=%s" % (pid, ctx.replay))
            print("  still failing: %s" % sorted({b["law"] for b in bad}))
            return 1
        print("replay: case no longer fails on the current tree")
        return 0
    outf = os.path.join(wdir, "mc_out.raw")
    r0 = vlib.tlc("ClientMC", os.path.join(vlib.SPEC, "ClientMC_%s_%s.cfg" % (MODE[pid], ctx.tier)), wdir,
                  env={"VERIF_OUT": outf}, workers=12, timeout=2400, heap="12g")
    vlib.tlc_must_pass(r0, "ClientMC")
    mc_cases = vlib.read_ndjson(outf)
    states, gen, traces, evals = r0.distinct, r0.generated, 0, 0
    nontrivial = set()
    samples = []
    # tables for the seeded pass come from a small match run when checking C14 (pool texts)
    table_cases = mc_cases
    if pid == "C14":
        outm = os.path.join(wdir, "mc_match.raw")
        rm = vlib.tlc("ClientMC", os.path.join(vlib.SPEC, "ClientMC_match_quick.cfg"), wdir, env={"VERIF_OUT": outm}, workers=8, timeout=900)
        vlib.tlc_must_pass(rm, "ClientMC tables")
        table_cases = mc_cases + [c for c in vlib.read_ndjson(outm) if len(c["entries"]) == 1]
    for tag, cases in (("exhaustive", mc_cases), ("seed%d" % ctx.seed, seeded_cases(pid, ctx.seed, ctx.tier, table_cases))):
        r, obs, rej = validate(pid, wdir, vh, cases, tag)
        states += r.distinct
        gen += r.generated
        # which case produced which observation record (match cases yield 1 sort + len(reqs) match records)
        owner = []
        for ci, c in enumerate(cases):
            owner += [ci] * ((1 + len(c["reqs"])) if c["kind"] == "match" else 1)
        for o in obs:
            if o["kind"] == "hist":
                traces += 1
                evals += len(o["steps"])
                if len({(s["op"]["pkg"], s["op"]["v"]) for s in o["steps"]}) < len(o["steps"]):
                    nontrivial.add(json.dumps([[s["op"][x] for x in ("pkg", "v", "a", "del", "d")] for s in o["steps"]]))
            else:
                evals += o.get("perms", 1)
                traces += 1
                if len(o["entries"]) > 1:
                    nontrivial.add((o["sys"], o.get("req", "sort"), json.dumps(sorted([e["v"], e["a"]] for e in o["entries"]))))
        for x in rej:
            if x["law"] not in LAWS[pid]:
                continue
            o = obs[x["n"] - 1]
            case = describe(o, x)
            case["mc_case"] = cases[owner[x["n"] - 1]]
            verdict.fail(signature(o, x), case)
        for o in obs[:1] + obs[-1:]:
            samples.append(describe(o, {"law": "sample", "detail": min(2, len(o.get("steps", [])))}))
    rc = verdict.finish(wdir)
    cov = {"states": states, "transitions": gen, "traces_validated_against_impl": traces, "evaluations": evals,
           "distinct_nontrivial": len(nontrivial),
           "rule": ("C12: TLC enumerates every list (subset of the per-system version pool with attribute variants) up to the bound and "
                    "the requirement catalogue; the harness runs MatchRequirement / SortVersions / LocalClient under every permutation; "
                    "non-trivial = list of >= 2 entries" if pid == "C12" else
                    "C14: TLC explores every AddVersion history up to the bound on the reference model; each maximal history and each seeded "
                    "long history is replayed on a real LocalClient and validated step by step; non-trivial = history that re-adds a key"),
           "samples": samples[:4], "known_findings_hit": {k: v[0] for k, v in verdict.hits.items()}, "exhaustive": False}
    vlib.write_evidence(pid, ctx.tier, ctx.seed, "model_checking", cov, time.time() - t0, violations=len(verdict.violations),
                        assumptions=["TLC 1.8.0", "version order and requirement satisfaction of the pool come from Order.tla / Ranges.tla",
                                     "attribute variants: none, Tags=latest, Tags=beta, Blocked"])
    return rc
