"""Parser for the proto3 subset used by api/v3/api.proto and api/v3alpha/api.proto (messages, nested messages and enums,
repeated / singular / proto3-optional scalar, message and enum fields, oneof, services with google.api.http get/post/...
options).  Anything outside the subset raises Unsupported (the check then exits 2 instead of guessing).
Produces the same neutral structure as harness/internal/apidesc."""
import re


class Unsupported(Exception):
    pass


SCALARS = {"double", "float", "int32", "int64", "uint32", "uint64", "sint32", "sint64", "fixed32", "fixed64", "sfixed32",
           "sfixed64", "bool", "string", "bytes"}
TOKEN = re.compile(r'\s*(?:(//[^\n]*)|(/\*.*?\*/)|("(?:[^"\\]|\\.)*")|([A-Za-z_][A-Za-z0-9_.]*)|(\d+)|(.))', re.S)


def tokens(text):
    out, pos = [], 0
    while pos < len(text):
        m = TOKEN.match(text, pos)
        if not m:
            break
        pos = m.end()
        if m.group(1) or m.group(2):
            continue
        tok = m.group(3) or m.group(4) or m.group(5) or m.group(6)
        if tok is not None and tok.strip():
            out.append(tok)
    return out


class P:
    def __init__(self, toks):
        self.t, self.i = toks, 0

    def peek(self):
        return self.t[self.i] if self.i < len(self.t) else None

    def next(self):
        tok = self.peek()
        self.i += 1
        return tok

    def expect(self, x):
        tok = self.next()
        if tok != x:
            raise Unsupported("expected %r, got %r near token %d" % (x, tok, self.i))

    def skip_block_or_stmt(self):
        depth = 0
        while True:
            tok = self.next()
            if tok is None:
                raise Unsupported("unexpected end of file")
            if tok == "{":
                depth += 1
            elif tok == "}":
                depth -= 1
                if depth == 0:
                    return
            elif tok == ";" and depth == 0:
                return


def parse(text):
    p = P(tokens(text))
    out = {"package": "", "services": [], "messages": [], "enums": []}
    scopes = {}   # full relative name -> kind, filled while parsing; type references resolved afterwards

    def parse_enum(prefix):
        name = p.next()
        full = prefix + name
        p.expect("{")
        vals = []
        while p.peek() != "}":
            tok = p.next()
            if tok == "option" or tok == "reserved":
                p.i -= 1
                p.next()
                p.skip_block_or_stmt()
                continue
            p.expect("=")
            neg = False
            if p.peek() == "-":
                p.next()
                neg = True
            num = int(p.next())
            if p.peek() == "[":
                raise Unsupported("enum value options")
            p.expect(";")
            vals.append({"name": tok, "number": -num if neg else num})
        p.expect("}")
        scopes[full] = "enum"
        out["enums"].append({"name": full, "values": vals})

    def parse_field(tok, oneof, scope):
        card, opt3 = "optional", False
        if tok == "repeated":
            card = "repeated"
            tok = p.next()
        elif tok == "optional":
            opt3 = True
            tok = p.next()
        elif tok == "map":
            raise Unsupported("map fields")
        elif tok == "required" or tok == "group":
            raise Unsupported(tok)
        typ = tok
        name = p.next()
        p.expect("=")
        num = int(p.next())
        if p.peek() == "[":
            p.skip_block_or_stmt() if False else None
            # field options such as [deprecated = true]: skip to ';'
            while p.peek() != ";":
                p.next()
        p.expect(";")
        f = {"name": name, "number": num, "kind": typ if typ in SCALARS else "?", "typename": "" if typ in SCALARS else typ,
             "card": card, "oneof": oneof, "opt3": opt3, "_scope": scope}
        return f

    def parse_message(prefix):
        name = p.next()
        full = prefix + name
        scopes[full] = "message"
        p.expect("{")
        msg = {"name": full, "fields": []}
        out["messages"].append(msg)
        while p.peek() != "}":
            tok = p.next()
            if tok == "message":
                parse_message(full + ".")
            elif tok == "enum":
                parse_enum(full + ".")
            elif tok == "oneof":
                oname = p.next()
                p.expect("{")
                while p.peek() != "}":
                    t2 = p.next()
                    if t2 == "option":
                        p.skip_block_or_stmt()
                        continue
                    msg["fields"].append(parse_field(t2, oname, full))
                p.expect("}")
            elif tok in ("option", "reserved", "extensions"):
                p.skip_block_or_stmt()
            elif tok == ";":
                continue
            elif tok == "extend":
                raise Unsupported("extend")
            else:
                msg["fields"].append(parse_field(tok, "", full))
        p.expect("}")

    def parse_service():
        name = p.next()
        svc = {"name": name, "methods": []}
        p.expect("{")
        while p.peek() != "}":
            tok = p.next()
            if tok == "option":
                p.skip_block_or_stmt()
                continue
            if tok != "rpc":
                raise Unsupported("service item %r" % tok)
            mname = p.next()
            p.expect("(")
            cs = False
            if p.peek() == "stream":
                p.next()
                cs = True
            inp = p.next()
            p.expect(")")
            p.expect("returns")
            p.expect("(")
            ss = False
            if p.peek() == "stream":
                p.next()
                ss = True
            outp = p.next()
            p.expect(")")
            m = {"name": mname, "input": inp, "output": outp, "clientstream": cs, "serverstream": ss, "httpverb": "", "httppath": "", "httpbody": ""}
            if p.peek() == ";":
                p.next()
            else:
                p.expect("{")
                while p.peek() != "}":
                    t2 = p.next()
                    if t2 != "option":
                        raise Unsupported("rpc body item %r" % t2)
                    p.expect("(")
                    oname = p.next()
                    p.expect(")")
                    p.expect("=")
                    if oname != "google.api.http":
                        p.skip_block_or_stmt()
                        continue
                    p.expect("{")
                    while p.peek() != "}":
                        key = p.next()
                        p.expect(":")
                        val = p.next()
                        if not val.startswith('"'):
                            raise Unsupported("http option value %r" % val)
                        val = val[1:-1]
                        if key in ("get", "post", "put", "delete", "patch"):
                            if m["httpverb"]:
                                raise Unsupported("two http patterns")
                            m["httpverb"], m["httppath"] = key, val
                        elif key == "body":
                            m["httpbody"] = val
                        else:
                            raise Unsupported("http option key %r" % key)
                        if p.peek() in (",", ";"):
                            p.next()
                    p.expect("}")
                    p.expect(";")
                p.expect("}")
            svc["methods"].append(m)
        p.expect("}")
        out["services"].append(svc)

    while p.peek() is not None:
        tok = p.next()
        if tok == "syntax":
            p.expect("=")
            if p.next() != '"proto3"':
                raise Unsupported("not proto3")
            p.expect(";")
        elif tok == "package":
            out["package"] = p.next()
            p.expect(";")
        elif tok in ("import", "option"):
            p.skip_block_or_stmt()
        elif tok == "message":
            parse_message("")
        elif tok == "enum":
            parse_enum("")
        elif tok == "service":
            parse_service()
        elif tok == ";":
            continue
        else:
            raise Unsupported("top-level %r" % tok)

    # resolve type references with protobuf scoping rules (innermost scope outwards)
    def resolve(tn, scope):
        if tn.startswith("google.protobuf."):
            return tn, "message"
        parts = scope.split(".") if scope else []
        while True:
            cand = ".".join(parts + [tn]) if parts else tn
            if cand in scopes:
                return cand, scopes[cand]
            if not parts:
                raise Unsupported("unresolved type %s in %s" % (tn, scope))
            parts.pop()
    for m in out["messages"]:
        for f in m["fields"]:
            sc = f.pop("_scope")
            if f["typename"]:
                f["typename"], f["kind"] = resolve(f["typename"], sc)
    for s in out["services"]:
        for m in s["methods"]:
            m["input"], _ = resolve(m["input"], "")
            m["output"], _ = resolve(m["output"], "")
    return out
