"""Shared machinery for /verif checks: TLC runner, harness build, evidence, verdicts.

Exit codes (DESIGN 3.4): 0 held, 1 VIOLATION (real code contradicts property, not a listed
finding), 2 machinery trouble (never a violation).
"""
import json, os, re, shutil, subprocess, sys, time, hashlib

VERIF = os.path.dirname(os.path.dirname(os.path.abspath(__file__)))
REPO = os.environ.get("VERIF_REPO", "/repo")
SPEC = os.path.join(VERIF, "spec")
HARNESS = os.path.join(VERIF, "harness")
WORK = os.path.join(VERIF, "work")
EVID = os.path.join(VERIF, "evidence")
TLAJAR = "/opt/veriftools/tla/tla2tools.jar:/opt/veriftools/tla/CommunityModules-deps.jar"

GOENV = dict(GOFLAGS="-mod=mod", GOPROXY="off", GOSUMDB="off", GOTOOLCHAIN="local")


class Trouble(Exception):
    """Machinery failure -> exit 2."""


def env_with(extra=None):
    e = dict(os.environ)
    e.update(GOENV)
    if extra:
        e.update({k: str(v) for k, v in extra.items()})
    return e


def sh(cmd, cwd=None, env=None, timeout=None, check=True, capture=True):
    p = subprocess.run(cmd, cwd=cwd, env=env_with(env), timeout=timeout, shell=isinstance(cmd, str),
                       stdout=subprocess.PIPE if capture else None,
                       stderr=subprocess.STDOUT if capture else None, text=True)
    if check and p.returncode != 0:
        raise Trouble("command failed (%s): %s\n%s" % (p.returncode, cmd, (p.stdout or "")[-4000:]))
    return p


def workdir(pid, sub=None, clean=True):
    d = os.path.join(WORK, pid if sub is None else os.path.join(pid, sub))
    if clean and os.path.isdir(d):
        shutil.rmtree(d, ignore_errors=True)
    os.makedirs(d, exist_ok=True)
    return d


_built = {}


def build_harness(name="vh", tags="verif", race=False):
    """Build harness/cmd/<name> against /repo's current working tree."""
    key = (name, tags, race)
    if key in _built:
        return _built[key]
    # go.sum must cover the repo modules' dependencies
    sums = set()
    for m in ("util/resolve", "util/maven", "util/pypi", "api/v3", "api/v3alpha"):
        p = os.path.join(REPO, m, "go.sum")
        if os.path.exists(p):
            sums.update(open(p).read().splitlines())
    body = "\n".join(sorted(s for s in sums if s.strip())) + "\n"
    sumf = os.path.join(HARNESS, "go.sum")
    if not os.path.exists(sumf) or open(sumf).read() != body:
        with open(sumf + ".%d.tmp" % os.getpid(), "w") as f:
            f.write(body)
        os.replace(sumf + ".%d.tmp" % os.getpid(), sumf)
    outdir = os.path.join(WORK, "bin")
    os.makedirs(outdir, exist_ok=True)
    out = os.path.join(outdir, name + ("-race" if race else ""))
    cmd = ["go", "build"]
    if tags:
        cmd += ["-tags", tags]
    if race:
        cmd += ["-race"]
    # build beside the target and rename: a check running in parallel keeps executing the binary it started with
    tmp = "%s.%d.tmp" % (out, os.getpid())
    cmd += ["-o", tmp, "./cmd/" + name]
    p = sh(cmd, cwd=HARNESS, timeout=900, check=False)
    if p.returncode != 0:
        raise Trouble("harness build failed against %s:\n%s" % (REPO, p.stdout[-6000:]))
    os.replace(tmp, out)
    _built[key] = out
    return out



def build_lru_driver():
    """Build the LRU driver against /repo's working tree. The cache lives in an internal package, so the driver (a main package)
    and a read-only state projection are overlaid into the module's tree with `go build -overlay`: /repo itself is not touched."""
    outdir = os.path.join(WORK, "bin")
    os.makedirs(outdir, exist_ok=True)
    src = os.path.join(HARNESS, "lruovl")
    mod = os.path.join(REPO, "util", "resolve")
    ovl = os.path.join(outdir, "lru-overlay.%d.json" % os.getpid())
    with open(ovl, "w") as f:
        json.dump({"Replace": {os.path.join(mod, "pypi", "verifdrv", "main.go"): os.path.join(src, "main.go.txt"),
                               os.path.join(mod, "pypi", "internal", "lru", "zz_verif_export.go"): os.path.join(src, "export.go.txt")}}, f)
    out = os.path.join(outdir, "lrudrv")
    tmp = "%s.%d.tmp" % (out, os.getpid())
    p = sh(["go", "build", "-overlay", ovl, "-o", tmp, "deps.dev/util/resolve/pypi/verifdrv"], cwd=mod, timeout=900, check=False)
    os.unlink(ovl)
    if p.returncode != 0:
        raise Trouble("LRU driver build failed against %s:\n%s" % (REPO, p.stdout[-6000:]))
    os.replace(tmp, out)
    return out


def run_harness(binpath, args, cwd=None, env=None, timeout=1800, stdin=None):
    p = subprocess.run([binpath] + list(args), cwd=cwd, env=env_with(env), timeout=timeout,
                       stdout=subprocess.PIPE, stderr=subprocess.PIPE, text=True, input=stdin)
    if p.returncode != 0:
        raise Trouble("harness %s %s exited %s\n%s\n%s" % (binpath, args, p.returncode, p.stdout[-3000:], p.stderr[-6000:]))
    return p.stdout


def run_harness_split(binpath, sub, tablesf, cases, casef, obsf, nparts=4, timeout=3000):
    """Run `vh <sub> tables cases obs` over the cases in nparts processes (contiguous slices, run concurrently) and concatenate
    the observations in case order.  Separate processes keep one slice's abandoned (hung) resolutions from starving the others."""
    import concurrent.futures as cf
    n = len(cases)
    bounds = [(k * n) // nparts for k in range(nparts + 1)]
    parts = [(bounds[k], bounds[k + 1]) for k in range(nparts) if bounds[k + 1] > bounds[k]] or [(0, 0)]
    write_ndjson(casef, cases)

    def one(k, lo, hi):
        cf_, of_ = "%s.part%d" % (casef, k), "%s.part%d" % (obsf, k)
        write_ndjson(cf_, cases[lo:hi])
        run_harness(binpath, [sub, tablesf, cf_, of_], timeout=timeout)
        return of_
    with cf.ThreadPoolExecutor(max_workers=len(parts)) as ex:
        outs = [f.result() for f in [ex.submit(one, k, lo, hi) for k, (lo, hi) in enumerate(parts)]]
    with open(obsf, "w") as w:
        for of_ in outs:
            with open(of_) as r:
                shutil.copyfileobj(r, w)
            os.remove(of_)
    for k in range(len(parts)):
        try:
            os.remove("%s.part%d" % (casef, k))
        except OSError:
            pass


def step_traces(vh, sub, spec, cfg, wdir, tablesf, fam, what, extra_env=None, per=1500):
    """Step-level trace validation: the resolver (verif hook) reports every step of its main loop; `vh <sub>` records the events
    (VERIF_STEPS), one "start" event with the universe per resolution; TLC consumes them as actions of the algorithm model
    (spec/<spec>.tla, deadlock checking on: a step the model cannot take stops the run at that line).  Information, not a
    verdict: a rejection says the specification no longer describes the code."""
    import concurrent.futures as cf
    casef, stepsf = os.path.join(wdir, "step_cases.ndjson"), os.path.join(wdir, "steps.ndjson")
    write_ndjson(casef, [{"universe": c["universe"], "root": c["root"]} for c in fam])
    run_harness(vh, [sub, tablesf, casef, os.path.join(wdir, "step_obs.ndjson")], env={"VERIF_STEPS": stepsf}, timeout=3000)
    lines = open(stepsf).readlines()
    starts = [i for i, ln in enumerate(lines) if ln.startswith('{"ev":"start"')]
    if len(starts) != len(fam):
        raise Trouble("step recording: %d start events for %d resolutions" % (len(starts), len(fam)))
    chunks = []
    for k in range(0, len(starts), per):
        lo, hi = starts[k], (starts[k + per] if k + per < len(starts) else len(lines))
        f = "%s.%03d" % (stepsf, k // per)
        with open(f, "w") as g:
            g.writelines(lines[lo:hi])
        chunks.append((f, lo))

    def one(f, lo):
        env = {"VERIF_TRACE": f}
        env.update(extra_env or {})
        r = tlc(spec, os.path.join(SPEC, cfg), wdir, env=env, workers=1, timeout=2400, heap="4g", deadlock=True)
        if r.ok:
            return r.distinct, None
        if "Deadlock reached" in r.out:
            m = re.findall(r"/\\ l = (\d+)", r.out)
            at = lo + int(m[-1]) if m else None
            return r.distinct, {"line": at, "event": json.loads(lines[at - 1]) if at and at <= len(lines) else None}
        raise Trouble("%s: violation=%s error=%s\n%s" % (spec, r.violation, r.error, r.out[-2000:]))
    states, rejected = 0, []
    with cf.ThreadPoolExecutor(max_workers=6) as ex:
        for fut in [ex.submit(one, f, lo) for f, lo in chunks]:
            st, rej = fut.result()
            states += st
            if rej:
                rejected.append(rej)
    for f, _ in chunks:
        os.remove(f)
    if rejected:
        print("NOTE: the %s resolver's step trace is not a behaviour of the algorithm model at %s (not a verdict)" % (what, json.dumps(rejected[0])[:300]))
    return {"resolutions": len(fam), "events": len(lines), "states": states, "accepted": not rejected, "rejected_at": rejected[:3]}


import threading
_spec_lock = threading.Lock()


class TlcResult:
    def __init__(self):
        self.ok = False
        self.generated = 0
        self.distinct = 0
        self.out = ""
        self.violation = None   # text of invariant / property violated
        self.error = None       # other error text
        self.depth = 0
        self.wall = 0.0
        self.coverage_zero = []


def tlc(spec, cfg, wdir, env=None, workers=8, timeout=600, heap="6g", extra=None, simulate=None,
        deadlock=False, depth_first=False, coverage=False):
    """Run TLC on spec (module name, in SPEC dir) with cfg file (path). Copies nothing: runs with
    cwd=SPEC-copy in wdir so that TLC's litter stays in work/."""
    t0 = time.time()
    sdir = os.path.join(wdir, "spec")
    with _spec_lock:
        if not os.path.isdir(sdir):
            shutil.copytree(SPEC, sdir)
    import uuid
    meta = os.path.join(wdir, "meta-%s-%s" % (os.path.basename(cfg), uuid.uuid4().hex[:12]))
    jtmp = meta + ".tmp"            # TLC's own scratch (java.io.tmpdir) stays under work/ too, and is removed after the run
    os.makedirs(jtmp, exist_ok=True)
    jopts = ["-Xss512m", "-Xmx" + heap, "-XX:+UseParallelGC", "-Djava.io.tmpdir=" + jtmp]
    if depth_first:
        jopts.append("-Dtlc2.tool.queue.IStateQueue=StateDeque")
    cmd = ["java"] + jopts + ["-cp", TLAJAR, "tlc2.TLC", "-metadir", meta, "-workers", str(workers),
                              "-config", os.path.basename(cfg)]
    if not deadlock:
        cmd += ["-deadlock"]
    if coverage:
        cmd += ["-coverage", "1"]
    if simulate:
        cmd += ["-simulate", simulate]
    if extra:
        cmd += list(extra)
    cmd += [spec]
    e = env_with(env)
    e.pop("JAVA_TOOL_OPTIONS", None)
    r = TlcResult()
    try:
        p = subprocess.run(cmd, cwd=sdir, env=e, timeout=timeout, stdout=subprocess.PIPE,
                           stderr=subprocess.STDOUT, text=True)
    except subprocess.TimeoutExpired as ex:
        shutil.rmtree(jtmp, ignore_errors=True)
        r.error = "timeout after %ss" % timeout
        r.out = (ex.stdout or b"").decode() if isinstance(ex.stdout, bytes) else (ex.stdout or "")
        r.wall = time.time() - t0
        return r
    shutil.rmtree(jtmp, ignore_errors=True)
    shutil.rmtree(meta, ignore_errors=True)
    r.out = p.stdout
    r.wall = time.time() - t0
    m = re.findall(r"(\d[\d,]*) states generated, (\d[\d,]*) distinct states found", p.stdout)
    if m:
        r.generated = int(m[-1][0].replace(",", ""))
        r.distinct = int(m[-1][1].replace(",", ""))
    m = re.search(r"The depth of the complete state graph search is (\d+)", p.stdout)
    if m:
        r.depth = int(m.group(1))
    m = re.search(r"Error: Invariant (\S+) is violated", p.stdout)
    if m:
        r.violation = "invariant " + m.group(1)
    m2 = re.search(r"Error: (Action property|Temporal properties|Postcondition|The postcondition)[^\n]*", p.stdout)
    if m2 and not r.violation:
        r.violation = m2.group(0)
    if "Model checking completed. No error has been found" in p.stdout and p.returncode == 0:
        r.ok = True
    elif simulate and p.returncode == 0 and "Error" not in p.stdout:
        r.ok = True
    elif not r.violation:
        errs = re.findall(r"Error:[^\n]*(?:\n[^\n]+){0,6}", p.stdout)
        r.error = "\n".join(errs)[:3000] or ("tlc exit %s\n%s" % (p.returncode, p.stdout[-2000:]))
    if coverage:
        r.coverage_zero = re.findall(r"^\s*<(\w+) line[^\n]*: 0:0$", p.stdout, re.M)
    shutil.rmtree(meta, ignore_errors=True)
    return r


def tlc_must_pass(r, what):
    if not r.ok:
        raise Trouble("TLC %s did not pass: violation=%s error=%s\n%s" % (what, r.violation, r.error, r.out[-3000:]))
    return r


def read_ndjson(path):
    out = []
    if not os.path.exists(path):
        return out
    with open(path) as f:
        for line in f:
            line = line.strip()
            if not line:
                continue
            v = json.loads(line)
            if isinstance(v, str):   # CSVWrite of ToJson: a JSON string literal holding JSON
                try:
                    v = json.loads(v)
                except Exception:
                    pass
            out.append(v)
    return out


def write_ndjson(path, rows):
    with open(path, "w") as f:
        for r in rows:
            f.write(json.dumps(r, separators=(",", ":")) + "\n")


def load_known():
    p = os.path.join(VERIF, "known_findings.json")
    if not os.path.exists(p):
        return {"findings": [], "fixed": []}
    return json.load(open(p))


class Verdict:
    """Collects failing cases; decides KNOWN-FINDING vs VIOLATION."""

    def __init__(self, pid):
        self.pid = pid
        self.known = [f for f in load_known().get("findings", []) if f["property"] == pid]
        for f in self.known:   # large signature lists live in separate committed files
            f["_sigset"] = set(f.get("signatures", []))
            if f.get("signatures_file"):
                with open(os.path.join(VERIF, f["signatures_file"])) as fh:
                    f["_sigset"].update(l.rstrip("\n") for l in fh if l.strip())
        self.hits = {}       # finding id -> (count, example)
        self.violations = []  # (signature, case)

    def fail(self, signature, case):
        """signature: string identifying the failing shape; case: JSON-able description."""
        for f in self.known:
            pats = f.get("signature_patterns", [])
            if signature in f["_sigset"] or any(re.fullmatch(p, signature) for p in pats):
                c, ex = self.hits.get(f["id"], (0, case))
                self.hits[f["id"]] = (c + 1, ex)
                return "known"
        self.violations.append((signature, case))
        return "violation"

    def finish(self, wdir):
        """Print lines, write replay files. Returns exit code."""
        for f in self.known:
            if f["id"] in self.hits:
                c, ex = self.hits[f["id"]]
                print("KNOWN-FINDING: property=%s %s: %s (%d cases this run) e.g. %s" % (
                    self.pid, f["id"], f["title"], c, json.dumps(ex, sort_keys=True)[:300]))
        snap = os.environ.get("VERIF_SNAPSHOT")   # maintainer tool: dump unmatched signatures for review
        if snap:
            with open(snap, "a") as fh:
                for sig in sorted({s for s, _ in self.violations}):
                    fh.write(sig + "\n")
        if not self.violations:
            return 0
        rdir = os.path.join(VERIF, "work", "replay")
        os.makedirs(rdir, exist_ok=True)
        seen = set()
        n = 0
        for sig, case in self.violations:
            if sig in seen:
                continue
            seen.add(sig)
            n += 1
            if n > 5:
                break
            h = hashlib.sha1((sig + json.dumps(case, sort_keys=True)).encode()).hexdigest()[:10]
            path = os.path.join(rdir, "%s-%s.json" % (self.pid, h))
            with open(path, "w") as fh:
                json.dump({"property": self.pid, "signature": sig, "case": case}, fh, indent=1, sort_keys=True)
            print("VIOLATION property=%s replay=%s" % (self.pid, path))
            print("  signature: %s" % sig)
            print("  case: %s" % json.dumps(case, sort_keys=True)[:600])
        return 1


def write_evidence(pid, tier, seed, level, coverage, wall, violations=0, assumptions=None):
    os.makedirs(EVID, exist_ok=True)
    ev = {"property_id": pid, "tier": tier, "seed": int(seed), "level": level, "coverage": coverage,
          "wall_s": round(wall, 2), "violations": int(violations), "assumptions": assumptions or []}
    with open(os.path.join(EVID, pid + ".json"), "w") as f:
        json.dump(ev, f, indent=1, sort_keys=True)
    return ev


def tlc_chunks(spec, cfg, wdir, obsfile, chunk, what, extra_env=None, parallel=4, workers=4, heap="6g", timeout=3000, keep_tail=0):
    """Validate a recorded ndjson trace file in chunks by parallel TLC processes.
    keep_tail: number of trailing lines that must stay in the last chunk together (not split).
    Returns (states, generated, [(global_line_index_1based, rej_record)], lines)."""
    import concurrent.futures as cf
    with open(obsfile) as f:
        lines = f.readlines()
    chunks = []
    for k in range(0, max(1, len(lines)), chunk):
        p = "%s.%03d" % (obsfile, k // chunk)
        with open(p, "w") as g:
            g.writelines(lines[k:k + chunk])
        chunks.append((p, k))

    def one(p, k):
        rejf = p + ".rej"
        if os.path.exists(rejf):
            os.remove(rejf)
        env = {"VERIF_OBS": p, "VERIF_REJ": rejf}
        env.update(extra_env or {})
        r = tlc(spec, cfg, wdir, env=env, workers=workers, timeout=timeout, heap=heap)
        tlc_must_pass(r, "%s chunk@%d" % (what, k))
        return r, [(k + x["n"], x) for x in read_ndjson(rejf) if x.get("law") != "stats"]
    states = gen = 0
    out = []
    with cf.ThreadPoolExecutor(max_workers=parallel) as ex:
        for fut in [ex.submit(one, p, k) for p, k in chunks]:
            r, rej = fut.result()
            states += r.distinct
            gen += r.generated
            out += rej
    return states, gen, out, lines
