// Build-time cross-check of spec/Ranges.tla (npm) against node-semver: usage: node npm_check.js uni cat
const semver = require("/usr/lib/node_modules/npm/node_modules/semver");
const fs = require("fs");
const rd = f => fs.readFileSync(f, "utf8").split("\n").filter(x => x).map(l => { let v = JSON.parse(l); return typeof v === "string" ? JSON.parse(v) : v; });
const uni = rd(process.argv[2]), cat = rd(process.argv[3]);
let bad = 0, n = 0, invalid = 0;
for (const c of cat) {
  if (!c.ref) continue;
  let r; try { r = new semver.Range(c.text); } catch (e) { invalid++; console.log("reference rejects", JSON.stringify(c.text)); continue; }
  const exp = new Set(c.expect);
  uni.forEach((u, i) => { n++; const got = r.test(u.text); if (got !== exp.has(i + 1)) { bad++; if (bad < 30) console.log("DISAGREE", JSON.stringify(c.text), u.text, "spec", exp.has(i + 1), "node-semver", got); } });
}
console.log("cases", n, "disagreements", bad, "rejected by reference", invalid);
