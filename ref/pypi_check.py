# Build-time cross-check of spec/Ranges.tla (PyPI) against packaging: python3-vt pypi_check.py uni cat
import sys, json
from packaging.specifiers import SpecifierSet, InvalidSpecifier
from packaging.version import Version
def rd(f):
    out = []
    for l in open(f):
        l = l.strip()
        if not l: continue
        v = json.loads(l)
        out.append(json.loads(v) if isinstance(v, str) else v)
    return out
uni, cat = rd(sys.argv[1]), rd(sys.argv[2])
bad = n = inv = 0
for c in cat:
    if not c["ref"]: continue
    try: s = SpecifierSet(c["text"])
    except InvalidSpecifier: inv += 1; print("reference rejects", c["text"]); continue
    exp = set(c["expect"])
    for i, u in enumerate(uni):
        n += 1
        got = s.contains(Version(u["text"]), prereleases=True)
        if got != ((i + 1) in exp):
            bad += 1
            if bad < 30: print("DISAGREE", c["text"], u["text"], "spec", (i + 1) in exp, "packaging", got)
print("cases", n, "disagreements", bad, "rejected by reference", inv)
