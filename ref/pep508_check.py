# Build-time cross-check of spec/Pep508.tla against packaging: python3-vt pep508_check.py <Pep508MC output>
import sys, json
from packaging.markers import Marker
from packaging.requirements import Requirement
from packaging.utils import canonicalize_name
ENV = {"os_name": "posix", "sys_platform": "linux", "platform_machine": "x86_64", "platform_python_implementation": "CPython",
       "platform_release": "6.9.10-1rodete5-amd64", "platform_system": "Linux",
       "platform_version": "#1 SMP PREEMPT_DYNAMIC Debian 6.9.10-1rodete5 (2024-09-04)", "python_version": "3.9",
       "python_full_version": "3.9.6", "implementation_name": "cpython", "implementation_version": "3.9.6"}
bad = n = 0
for l in open(sys.argv[1]):
    v = json.loads(l)
    v = json.loads(v) if isinstance(v, str) else v
    n += 1
    if v["kind"] == "marker":
        try:
            m = Marker(v["text"])
            got = any(m.evaluate(dict(ENV, extra=e)) for e in (v["extras"] or [""]))
        except Exception as e:
            got = "ERR " + str(e)[:60]
        if got != v["expect"]:
            bad += 1
            if bad < 25: print("MARKER", v["text"], v["extras"], "spec", v["expect"], "packaging", got)
    else:
        try:
            r = Requirement(v["text"])
        except Exception as e:
            bad += 1; print("REQ rejected", repr(v["text"]), e); continue
        e = v["expect"]
        got = (canonicalize_name(r.name), set(r.extras), {str(s) for s in r.specifier}, " ".join(str(r.marker).replace('"', "'").split()) if r.marker else "")
        want = (e["name"], set(e["extras"]), set(e["spec"]), " ".join(e["marker"].replace('"', "'").split()))
        if got != want:
            bad += 1
            if bad < 25: print("REQ", repr(v["text"]), want, got)
print("cases", n, "disagreements", bad)
