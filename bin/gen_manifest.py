#!/usr/bin/env python3
"""Regenerates MANIFEST.json from the table below (kept in one place so it stays valid)."""
import json, os
VERIF = os.path.dirname(os.path.dirname(os.path.abspath(__file__)))
BASE_OFF = ("for m in api/v3 api/v3alpha util/maven util/pypi util/resolve util/semver; do "
            "(cd /repo/$m && GOFLAGS=-mod=mod go test -json -vet=off -count=1 -timeout 25m ./...); done")
CHECKS = json.load(open(os.path.join(VERIF, "bin", "checks.json")))
ALL = ["C%02d" % i for i in range(1, 20)]
m = {
    "version": 1,
    "setup_cmd": "bin/setup",
    "hooks": {"guard": "verif", "enable": "go build -tags verif (harness module with replace directives to /repo)",
              "baseline_off_cmd": BASE_OFF, "source_commits": CHECKS.get("hook_commits", []), "add_only": True},
    "engines": [{"name": "tlc-conformance", "path": "bin/check", "serves_properties": sorted(CHECKS["checks"].keys()),
                 "kind_free_text": "TLA+ specifications (spec/*.tla) model-checked with TLC; Go harness (harness/cmd/vh) replays "
                                   "TLC-generated cases into the real code and records traces that TLC validates against the spec"}],
    "checks": [],
    "notes": "See DESIGN.md. Exit 0 held / 1 VIOLATION / 2 machinery trouble (never a violation). known_findings.json lists recorded defects.",
    "not_applicable": [],
}
for pid in ALL:
    c = CHECKS["checks"].get(pid)
    if not c:
        m["not_applicable"].append({"property_id": pid, "reason": CHECKS["pending"].get(pid, "check not built yet in this session (see DESIGN section 5)")})
        continue
    m["checks"].append({
        "property_id": pid, "quick_cmd": "bin/check %s quick" % pid, "thorough_cmd": "bin/check %s thorough" % pid,
        "evidence_file": "evidence/%s.json" % pid, "replay_cmd_template": "bin/check %s --replay {path}" % pid,
        "engine": "tlc-conformance",
        "level_claimed": {"category": c.get("category", "model_checking"), "text": c["text"], "design_ref": c["design_ref"]},
        "level_note": c["note"], "technique": c["technique"]})
json.dump(m, open(os.path.join(VERIF, "MANIFEST.json"), "w"), indent=1)
print("checks:", [c["property_id"] for c in m["checks"]], "n/a:", [c["property_id"] for c in m["not_applicable"]])
